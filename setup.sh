#!/bin/sh
# Build the overlay venv used by every check (offline).
set -e
cd "$(dirname "$0")"
if [ ! -x .venv/bin/python ] || ! .venv/bin/python -c "import z3, crosshair, PIL, urwid" 2>/dev/null; then
  rm -rf .venv
  /venv/bin/python -m venv .venv
  SP=$(.venv/bin/python -c "import sysconfig; print(sysconfig.get_paths()['purelib'])")
  echo "import site; site.addsitedir('/venv/lib/python3.12/site-packages')" > "$SP/_venv_overlay.pth"
  PIP_NO_INDEX=1 .venv/bin/pip install -q --no-index --find-links /opt/veriftools/wheels z3-solver crosshair-tool
fi
.venv/bin/python -c "import z3, crosshair; print('z3', z3.get_version_string())"
