"""Oracle T - the terminal model (DESIGN.md 2.3).  TRUSTED, reviewable.

Interprets a render output (TStr or plain str) the way a terminal would and
tracks, as z3 terms: cursor, SGR state, cursor visibility, scroll position,
graphics placements, parser state, and what happened to ONE symbolic probe
cell (px, py).  Since the probe is universally quantified by the solver,
claims about it cover every cell.

Coordinates: columns 0..W-1; rows are *document* rows (they keep counting when
the screen scrolls); ``top`` is the document row shown on the first screen line.
``col == W`` means "last column written, wrap pending".
"""
from __future__ import annotations

import z3

from .core import EngineLimit
from .tstr import Dec, Lit, Opq, Rep, TStr, _parts

BLANK, UPPER, LOWER, OTHER, GRAPHIC, UNWRITTEN = 0, 1, 2, 3, 4, -1
GLYPHS = {" ": BLANK, "▀": UPPER, "▄": LOWER}


def I(x):
    return x if isinstance(x, z3.ExprRef) else z3.IntVal(int(x))


def simp(x):
    return z3.simplify(x)


def ite(c, a, b):
    c = simp(c)
    if z3.is_true(c):
        return a
    if z3.is_false(c):
        return b
    return z3.If(c, a, b)


def zmin(a, b):
    return simp(z3.If(a < b, a, b))


def zmax(a, b):
    return simp(z3.If(a > b, a, b))


class Colour:
    """default flag + rgb terms"""

    __slots__ = ("d", "r", "g", "b")

    def __init__(self, d=True, r=0, g=0, b=0):
        self.d = d if isinstance(d, z3.ExprRef) else z3.BoolVal(bool(d))
        self.r, self.g, self.b = I(r), I(g), I(b)

    def sel(self, c, other):
        """If(c, self, other)"""
        return Colour(ite(c, self.d, other.d), ite(c, self.r, other.r), ite(c, self.g, other.g), ite(c, self.b, other.b))

    def eq(self, other):
        return z3.And(self.d == other.d, z3.Or(self.d, z3.And(self.r == other.r, self.g == other.g, self.b == other.b)))

    def is_rgb(self, r, g, b):
        return z3.And(z3.Not(self.d), self.r == I(r), self.g == I(g), self.b == I(b))


class Term:
    def __init__(self, W, H, x0=0, y0=0, probe=None, origin=None, iterm2_moves_cursor=True):
        self.W, self.H = I(W), I(H)
        self.col, self.row = I(x0), I(y0)
        self.top = z3.IntVal(0)
        self.origin = I(x0 if origin is None else origin)
        if probe is None:
            probe = (z3.IntVal(-5), z3.IntVal(-5))
        self.px, self.py = I(probe[0]), I(probe[1])
        self.p_written = z3.BoolVal(False)
        self.p_glyph = z3.IntVal(UNWRITTEN)
        self.p_fg, self.p_bg = Colour(), Colour()
        self.p_image = z3.IntVal(-1)  # index of the placement shown in the probe cell
        self.p_image_dx = z3.IntVal(0)
        self.p_image_dy = z3.IntVal(0)
        self.fg, self.bg = Colour(), Colour()
        self.cursor_visible = z3.BoolVal(True)
        self.synced = z3.BoolVal(False)
        self.events = []  # (name, z3 Bool): must never be satisfiable
        self.newlines = 0
        self.scrolled = z3.BoolVal(False)
        self.placements = []  # dicts
        self.deletes = []
        self.gfx_log = []  # ("place", placement index) / ("delete", command dict, cursor col, cursor row), in arrival order
        self.kitty_pending = None  # keys of a chunked transmission in progress
        self.kitty_chunks = []  # per transmission: list of (m term/int, payload parts)
        self.transmissions = []  # completed: dict(keys=..., chunks=[...])
        self.state = "ground"
        self.buf = []
        self.string_kind = None
        self.in_payload = False
        self.writes = 0

    # ------------------------------------------------------------------ feeding
    def feed(self, s):
        for p in _parts(s) if not isinstance(s, TStr) else s.parts:
            self._part(p)
        return self

    def _part(self, p):
        if isinstance(p, Lit):
            t, i, n = p.t, 0, len(p.t)
            while i < n:
                if self.state == "string" and self.in_payload:
                    # bulk-consume payload characters up to the next ESC / BEL
                    j = min((k for k in (t.find("\x1b", i), t.find("\x07", i)) if k >= 0), default=n)
                    if j > i:
                        self.buf.append(Opq("literal-payload", z3.IntVal(0), z3.IntVal(j - i), ("literal", t[i:j])))
                        i = j
                        continue
                ch = t[i]
                if self.state == "ground" and ch >= " " and ch != "\x7f":
                    # run of one printable glyph: a single write of n cells
                    j = i + 1
                    while j < n and t[j] == ch:
                        j += 1
                    self._glyph(ch, z3.IntVal(j - i))
                    i = j
                    continue
                self._atom(ch)
                i += 1
        elif isinstance(p, Rep):
            n = simp(p.n)
            if z3.is_int_value(n):
                for _ in range(max(0, n.as_long())):
                    for q in p.body.parts:
                        self._part(q)
                return
            if self.state != "ground":
                raise EngineLimit("symbolic repetition inside a control sequence")
            glyphs = []
            for q in p.body.parts:
                if not isinstance(q, Lit):
                    raise EngineLimit("symbolic repetition of a non-literal body")
                for ch in q.t:
                    if ch == "\0":
                        continue
                    if ch < " " or ch == "\x7f":
                        raise EngineLimit("symbolic repetition of a body with control characters")
                    glyphs.append(ch)
            if len(glyphs) != 1:
                raise EngineLimit("symbolic repetition of a multi-cell body")
            self._glyph(glyphs[0], n)
        else:
            self._atom(p)

    def _atom(self, a):
        st = self.state
        if st == "ground":
            if isinstance(a, str):
                if a == "\x1b":
                    self.state = "esc"
                elif a == "\n":
                    self._newline()
                elif a == "\r":
                    self.col = z3.IntVal(0)
                elif a == "\b":
                    self.col = zmax(zmin(self.col, self.W - 1) - 1, z3.IntVal(0))
                elif a == "\0" or a == "\x07":
                    pass
                elif a < " ":
                    raise EngineLimit(f"control character {a!r}")
                else:
                    self._glyph(a, z3.IntVal(1))
            elif isinstance(a, Dec):
                # digits (and a possible minus sign) printed as text
                raise EngineLimit("symbolic decimal printed as text")
            elif isinstance(a, Opq):
                self.events.append(("payload bytes printed as text", a.length > 0))
            else:
                raise EngineLimit(f"atom {a!r}")
        elif st == "esc":
            if a == "[":
                self.state, self.buf = "csi", []
            elif a == "_":
                self.state, self.buf, self.string_kind, self.in_payload = "string", [], "APC", False
            elif a == "]":
                self.state, self.buf, self.string_kind, self.in_payload = "string", [], "OSC", False
            elif a == "P":
                self.state, self.buf, self.string_kind, self.in_payload = "string", [], "DCS", False
            elif a == "\\":
                self.state = "ground"  # stray ST: harmless
            elif a == "\x1b":
                pass  # ESC ESC: still waiting for the introducer
            elif isinstance(a, str) and a in "\n\r":
                self.state = "ground"  # C0 controls are executed; the escape sequence continues
                self._atom(a)
                self.state = "esc"
            elif isinstance(a, str) and (" " <= a <= "/"):
                pass  # intermediate byte
            elif isinstance(a, str) and ("0" <= a <= "~"):
                self.state = "ground"  # some two-character escape sequence: no visible effect modelled
            else:
                raise EngineLimit(f"ESC {a!r}")
        elif st == "csi":
            if a == "\x1b":
                self.state = "esc"  # ESC aborts the sequence and starts a new one
            elif isinstance(a, str) and a in "\n\r":
                # C0 controls inside a control sequence are executed; the sequence continues
                self.state = "ground"
                self._atom(a)
                self.state = "csi"
            elif isinstance(a, str) and "@" <= a <= "~":
                self.state = "ground"
                self._csi(self.buf, a)
            elif isinstance(a, str) and (a.isdigit() or a in ";:?>=-"):
                self.buf.append(a)
            elif isinstance(a, Dec):
                self.buf.append(a)
            else:
                self.events.append(("malformed CSI", z3.BoolVal(True)))
                self.state = "ground"
        elif st == "string":
            if a == "\x1b":
                self.state = "string_esc"
            elif a == "\x07" and self.string_kind == "OSC":
                self.state = "ground"
                self._string(self.string_kind, self.buf)
            else:
                self.buf.append(a)
                if (self.string_kind == "APC" and a == ";") or (self.string_kind == "OSC" and a == ":"):
                    self.in_payload = True
        elif st == "string_esc":
            if a == "\\":
                self.state = "ground"
                self._string(self.string_kind, self.buf)
            else:
                self.events.append(("ESC inside a control string", z3.BoolVal(True)))
                self.state = "ground"
                if a == "\x1b":
                    self.state = "esc"

    # ------------------------------------------------------------------- effects
    def _touch(self, covers, glyph, fg, bg, image=None, dx=None, dy=None):
        covers = simp(covers)
        if z3.is_false(covers):
            return
        self.p_written = simp(z3.Or(self.p_written, covers))
        self.p_glyph = ite(covers, I(glyph), self.p_glyph)
        self.p_fg = fg.sel(covers, self.p_fg)
        self.p_bg = bg.sel(covers, self.p_bg)
        if image is not None:
            self.p_image = ite(covers, I(image), self.p_image)
            self.p_image_dx = ite(covers, dx, self.p_image_dx)
            self.p_image_dy = ite(covers, dy, self.p_image_dy)
        else:
            self.p_image = ite(covers, z3.IntVal(-1), self.p_image)

    def _glyph(self, ch, n):
        g = GLYPHS.get(ch, OTHER)
        self.writes += 1
        self.events.append(("line wrap", simp(z3.And(n > 0, self.col + n > self.W))))
        self._touch(z3.And(self.py == self.row, self.px >= self.col, self.px < self.col + n), g, self.fg, self.bg)
        self.col = simp(self.col + n)

    def _newline(self):
        self.newlines += 1
        scroll = simp(self.row + 1 - self.top > self.H - 1)
        self.scrolled = simp(z3.Or(self.scrolled, scroll))
        self.top = ite(scroll, self.top + 1, self.top)
        self.row = simp(self.row + 1)
        self.col = self.origin

    def _params(self, buf):
        """-> (private marker, [param terms])"""
        priv = ""
        items = list(buf)
        if items and isinstance(items[0], str) and items[0] in "?>=":
            priv = items.pop(0)
        params, cur = [], []
        for a in items + [";"]:
            if isinstance(a, str) and a in ";:":
                params.append(self._number(cur))
                cur = []
            else:
                cur.append(a)
        if len(params) == 1 and params[0] is None:
            params = []
        return priv, params

    def _number(self, atoms, signed=False):
        if not atoms:
            return None
        if len(atoms) == 1 and isinstance(atoms[0], Dec):
            if not signed:
                self.events.append(("negative number in a control sequence", atoms[0].v < 0))
            return atoms[0].v
        if all(isinstance(a, str) and a.isdigit() for a in atoms):
            return z3.IntVal(int("".join(atoms)))
        if signed and atoms[0] == "-" and len(atoms) > 1 and all(isinstance(a, str) and a.isdigit() for a in atoms[1:]):
            return z3.IntVal(-int("".join(atoms[1:])))
        if any(a == "-" for a in atoms if isinstance(a, str)):
            self.events.append(("negative number in a control sequence", z3.BoolVal(True)))
            return z3.IntVal(0)
        raise EngineLimit("number made of mixed literal digits and symbolic decimals")

    def _csi(self, buf, final):
        priv, ps = self._params(buf)

        def p0(default=1):
            if not ps or ps[0] is None:
                return z3.IntVal(default)
            return ite(ps[0] == 0, z3.IntVal(default), ps[0])

        cur = zmin(self.col, self.W - 1)
        if priv == "":
            if final == "C":
                self.col = zmin(cur + p0(), self.W - 1)
            elif final == "D":
                self.col = zmax(cur - p0(), z3.IntVal(0))
            elif final == "A":
                self.row = zmax(self.row - p0(), self.top)
            elif final == "B":
                self.row = zmin(self.row + p0(), self.top + self.H - 1)
            elif final == "X":
                n = p0()
                self._touch(z3.And(self.py == self.row, self.px >= cur, self.px < cur + n, self.px < self.W), BLANK, Colour(), self.bg)
            elif final == "m":
                self._sgr(ps)
            elif final in "ct":
                pass  # DA1 / XTWINOPS queries: no visible effect
            else:
                raise EngineLimit(f"CSI {final}")
        elif priv == "?" and final in "hl":
            mode = ps[0] if ps else None
            if mode is not None and z3.is_int_value(simp(mode)):
                m = simp(mode).as_long()
                if m == 25:
                    self.cursor_visible = z3.BoolVal(final == "h")
                elif m == 2026:
                    self.synced = z3.BoolVal(final == "h")
                else:
                    raise EngineLimit(f"DEC mode {m}")
            else:
                raise EngineLimit("symbolic DEC mode")
        elif priv == ">" and final == "q":
            pass  # XTVERSION
        else:
            raise EngineLimit(f"CSI {priv}...{final}")

    def _sgr(self, ps):
        if not ps or (len(ps) == 1 and (ps[0] is None or (z3.is_int_value(simp(ps[0])) and simp(ps[0]).as_long() == 0))):
            self.fg, self.bg = Colour(), Colour()
            return
        vals = [None if p is None else simp(p) for p in ps]
        if len(vals) == 5 and z3.is_int_value(vals[0]) and z3.is_int_value(vals[1]) and vals[1].as_long() == 2 and vals[0].as_long() in (38, 48):
            r, g, b = vals[2:]
            for ch in (r, g, b):
                self.events.append(("colour component outside 0..255", simp(z3.Or(ch < 0, ch > 255))))
            c = Colour(False, r, g, b)
            if vals[0].as_long() == 38:
                self.fg = c
            else:
                self.bg = c
            return
        raise EngineLimit(f"SGR {ps}")

    # ---------------------------------------------------------- control strings
    @staticmethod
    def _split(atoms, sep):
        out, cur = [], []
        for a in atoms:
            if a == sep:
                out.append(cur)
                cur = []
            else:
                cur.append(a)
        out.append(cur)
        return out

    def _string(self, kind, atoms):
        if kind == "APC" and atoms and atoms[0] == "G":
            body = atoms[1:]
            if ";" in body:
                i = body.index(";")
                ctrl, payload = body[:i], body[i + 1 :]
            else:
                ctrl, payload = body, []
            keys = {}
            for kv in self._split(ctrl, ","):
                if not kv:
                    continue
                if "=" not in kv:
                    self.events.append(("malformed kitty key", z3.BoolVal(True)))
                    continue
                j = kv.index("=")
                k = "".join(x if isinstance(x, str) else "?" for x in kv[:j])
                keys[k] = kv[j + 1 :]
            self._kitty(keys, payload)
        elif kind == "OSC":
            text = "".join(a for a in atoms[:10] if isinstance(a, str))
            if text.startswith("1337;File="):
                self._iterm2(atoms[len("1337;File=") :])
            else:
                pass  # colour queries etc.
        elif kind == "DCS":
            pass
        else:
            # an APC string that is not a (complete) kitty command, e.g. one cut right after ESC _ : ignored by terminals
            pass

    def _kv_num(self, v):
        return self._number(v, signed=True)

    def _kv_str(self, v):
        if all(isinstance(a, str) for a in v):
            return "".join(v)
        return None

    def _payload_len(self, payload):
        total = z3.IntVal(0)
        for a in payload:
            if isinstance(a, str):
                total = total + 1
            elif isinstance(a, Opq):
                total = total + a.length
            else:
                raise EngineLimit("symbolic decimal inside a payload")
        return simp(total)

    def _kitty(self, keys, payload):
        plen = self._payload_len(payload)
        m = self._kv_num(keys["m"]) if "m" in keys else z3.IntVal(0)
        if m is None:  # "m=" cut short
            self.events.append(("malformed kitty key", z3.BoolVal(True)))
            m = z3.IntVal(0)
        first = "a" in keys or ("m" in keys and self.kitty_pending is None and set(keys) - {"m", "q"})
        act = self._kv_str(keys.get("a", ["T"] if first else []))
        if act == "d":
            self.deletes.append({k: (self._kv_str(v) if k in ("a", "d") else self._kv_num(v)) for k, v in keys.items()})
            self.gfx_log.append(("delete", self.deletes[-1], zmin(self.col, self.W - 1), self.row))
            return
        if act == "q":
            return
        if set(keys) <= {"m", "q"}:
            # continuation (or the library's "end chunked" command)
            if self.kitty_pending is None:
                if "q" in keys:
                    return  # KITTY_END_CHUNKED with nothing pending: harmless
                self.events.append(("kitty continuation chunk without a transmission", z3.BoolVal(True)))
                return
            self.kitty_chunks.append((m, plen, payload))
        else:
            if self.kitty_pending is not None:
                self.events.append(("kitty transmission started inside a chunked one", z3.BoolVal(True)))
            self.kitty_pending = keys
            self.kitty_chunks = [(m, plen, payload)]
        self.events.append(("kitty chunk larger than 4096", simp(plen > 4096)))
        self.events.append(("kitty non-final chunk not a multiple of 4", simp(z3.And(m == 1, plen % 4 != 0))))
        self.events.append(("kitty m flag not 0/1", simp(z3.And(m != 0, m != 1))))
        more = simp(m == 1)
        if z3.is_true(more):
            return
        if not z3.is_false(more):
            # a flag computed from symbolic data (e.g. a length comparison): fork on it
            from .core import SymBool

            if bool(SymBool(more)):
                return
        keys, chunks = self.kitty_pending, self.kitty_chunks
        self.kitty_pending, self.kitty_chunks = None, []
        self.transmissions.append({"keys": keys, "chunks": chunks})
        if self._kv_str(keys.get("a", [])) != "T":
            return
        c = self._kv_num(keys["c"]) if "c" in keys else None
        r = self._kv_num(keys["r"]) if "r" in keys else None
        if c is None or r is None:
            # truncated command: the terminal would size the placement from the pixel data
            self.events.append(("kitty placement without c/r", z3.BoolVal(True)))
            return
        C = self._kv_num(keys["C"]) if "C" in keys else z3.IntVal(0)
        self.events.append(("kitty placement moves the cursor (C != 1)", simp(C != 1)))
        self._place("kitty", c, r, keys)

    def survives(self, idx):
        """z3 condition: kitty placement `idx` is still on screen, i.e. no later delete command applied to it
        (d=A/a all placements, d=Z/z by z-index, d=C/c placements intersecting the cursor cell)"""
        p = self.placements[idx]
        pz = self._kv_num(p["keys"]["z"]) if "z" in p["keys"] else z3.IntVal(0)
        conds, seen = [], False
        for ev in self.gfx_log:
            if ev[0] == "place":
                seen = seen or ev[1] == idx
                continue
            if not seen:
                continue
            _, cmd, ccol, crow = ev
            d = (cmd.get("d") or "a")
            if d in ("A", "a"):
                applies = z3.BoolVal(True)
            elif d in ("Z", "z"):
                applies = cmd["z"] == pz if cmd.get("z") is not None else z3.BoolVal(False)
            elif d in ("C", "c"):
                applies = z3.And(ccol >= p["col"], ccol < p["col"] + p["cols"], crow >= p["row"], crow < p["row"] + p["rows"])
            else:
                raise EngineLimit(f"kitty delete mode {d!r}")
            conds.append(z3.Not(applies))
        return simp(z3.And(*conds)) if conds else z3.BoolVal(True)

    def _place(self, kind, c, r, keys):
        cur = zmin(self.col, self.W - 1)
        idx = len(self.placements)
        self.events.append((f"{kind} image wider than the space right of the cursor", simp(cur + c > self.W)))
        self.events.append((f"{kind} image has a non-positive cell size", simp(z3.Or(c < 1, r < 1))))
        self.events.append((f"{kind} image extends below the screen (scroll)", simp(self.row + r - 1 > self.top + self.H - 1)))
        self.placements.append({"kind": kind, "col": cur, "row": self.row, "cols": c, "rows": r, "keys": keys, "index": idx})
        self.gfx_log.append(("place", idx))
        self._touch(
            z3.And(self.px >= cur, self.px < cur + c, self.py >= self.row, self.py < self.row + r),
            GRAPHIC, Colour(), Colour(), image=idx, dx=simp(self.px - cur), dy=simp(self.py - self.row),
        )
        return cur

    def _iterm2(self, atoms):
        if ":" not in atoms:
            self.events.append(("iterm2 command without payload separator", z3.BoolVal(True)))
            return
        i = atoms.index(":")
        ctrl, payload = atoms[:i], atoms[i + 1 :]
        keys = {}
        for kv in self._split(ctrl, ";"):
            if not kv:
                continue
            if "=" not in kv:
                self.events.append(("malformed iterm2 key", z3.BoolVal(True)))
                continue
            j = kv.index("=")
            keys["".join(x for x in kv[:j] if isinstance(x, str))] = kv[j + 1 :]
        w = self._kv_num(keys.get("width", []))
        h = self._kv_num(keys.get("height", []))
        if w is None or h is None:
            self.events.append(("iterm2 image without width/height in cells", z3.BoolVal(True)))
            return
        keys["_payload"] = payload
        keys["_payload_len"] = self._payload_len(payload)
        self.transmissions.append({"keys": keys, "chunks": [(z3.IntVal(0), keys["_payload_len"], payload)]})
        cur = self._place("iterm2", w, h, keys)
        stay = self._kv_num(keys["doNotMoveCursor"]) if "doNotMoveCursor" in keys else z3.IntVal(0)
        if z3.is_int_value(simp(stay)) and simp(stay).as_long() == 1:
            return
        # iTerm2 / WezTerm: cursor ends on the last row of the image, just right of it
        self.col = simp(cur + w)
        self.row = simp(self.row + h - 1)

    # ------------------------------------------------------------------ results
    def finish(self):
        self.events.append(("output ends inside a control sequence", z3.BoolVal(self.state != "ground")))
        self.events.append(("kitty chunked transmission left open", z3.BoolVal(self.kitty_pending is not None)))
        return self

    def cursor_col(self):
        """logical cursor column (at the right margin when a wrap is pending)"""
        return zmin(self.col, self.W - 1)

    def sgr_default(self):
        return simp(z3.And(self.fg.d, self.bg.d))
