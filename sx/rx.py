"""Engine R (DESIGN.md 2.5): regular expressions.

(a) ``to_z3(pattern)``: sre_parse tree -> z3 regular expression (unbounded-length
    language questions: acceptance, inclusion, equivalence).
(b) ``SxPattern``: a backtracking matcher over the same sre_parse tree that runs on
    ``CStr`` (strings whose characters are z3 integers) under Engine S, with Python
    ``re`` semantics (leftmost, greedy/lazy with backtracking, capture groups).  It
    replaces compiled patterns in the lifted modules; on ordinary ``str`` arguments it
    delegates to the real pattern.  ``selftest`` compares it with ``re`` on all short
    strings over a representative alphabet.
"""
from __future__ import annotations

import itertools
import re

import z3

from . import core
from .core import EngineLimit, SymBool, SymInt, term

try:
    import re._constants as C
    import re._parser as sre_parse
except ImportError:  # pragma: no cover
    import sre_constants as C
    import sre_parse

# ------------------------------------------------------------------ (a) z3 regex
_S = z3.StringSort()


def _any():
    return z3.Intersect(z3.AllChar(z3.ReSort(_S)), z3.Complement(z3.Re("\n")))


def _swap_ranges(lo, hi):
    """ASCII case-swapped images of the letters inside [lo, hi]"""
    out = []
    a, b = max(lo, 97), min(hi, 122)
    if a <= b:
        out.append((a - 32, b - 32))
    a, b = max(lo, 65), min(hi, 90)
    if a <= b:
        out.append((a + 32, b + 32))
    return out


def _cls(items, icase=False):
    parts, negate = [], False
    for op, av in items:
        if op is C.LITERAL:
            parts.append(z3.Re(chr(av)))
            if icase:
                parts += [z3.Range(chr(a), chr(b)) for a, b in _swap_ranges(av, av)]
        elif op is C.RANGE:
            parts.append(z3.Range(chr(av[0]), chr(av[1])))
            if icase:
                parts += [z3.Range(chr(a), chr(b)) for a, b in _swap_ranges(av[0], av[1])]
        elif op is C.CATEGORY:
            if av is C.CATEGORY_DIGIT:
                parts.append(z3.Range("0", "9"))
            elif av is C.CATEGORY_WORD:
                parts += [z3.Range("0", "9"), z3.Range("a", "z"), z3.Range("A", "Z"), z3.Re("_")]
            else:
                raise NotImplementedError(av)
        elif op is C.NEGATE:
            negate = True
        else:
            raise NotImplementedError(op)
    r = parts[0] if len(parts) == 1 else z3.Union(*parts)
    if negate:
        r = z3.Intersect(z3.AllChar(z3.ReSort(_S)), z3.Complement(r))
    return r


def _conv(p, icase=False):
    out = []
    for op, av in p:
        if op is C.LITERAL:
            alts = [z3.Re(chr(av))] + ([z3.Re(chr(a)) for a, _b in _swap_ranges(av, av)] if icase else [])
            out.append(alts[0] if len(alts) == 1 else z3.Union(*alts))
        elif op is C.IN:
            out.append(_cls(av, icase))
        elif op is C.ANY:
            out.append(_any())
        elif op is C.SUBPATTERN:
            out.append(_conv(av[3], icase))
        elif op is C.BRANCH:
            out.append(z3.Union(*[_conv(b, icase) for b in av[1]]))
        elif op in (C.MAX_REPEAT, C.MIN_REPEAT):
            lo, hi, sub = av
            r = _conv(sub, icase)
            if hi is C.MAXREPEAT:
                out.append(z3.Concat(*([r] * lo + [z3.Star(r)])) if lo else z3.Star(r))
            elif lo == 0 and hi == 1:
                out.append(z3.Option(r))
            else:
                out.append(z3.Loop(r, lo, hi))
        else:
            raise NotImplementedError(op)
    if not out:
        return z3.Re("")
    return out[0] if len(out) == 1 else z3.Concat(*out)


def to_z3(pattern, flags=re.ASCII):
    """z3 regex of the language that ``re.fullmatch(pattern, ...)`` accepts."""
    if flags & ~(re.ASCII | re.IGNORECASE | re.UNICODE):
        raise NotImplementedError(f"regex flags {flags!r}")
    return _conv(sre_parse.parse(pattern, flags), bool(flags & re.IGNORECASE))


# ------------------------------------------------------------------ CStr
class CStr:
    """A string of concrete length whose characters are integer terms (code points)."""

    __slots__ = ("cs",)
    __class__ = property(lambda s: str)

    def __init__(self, cs):
        self.cs = list(cs)  # z3 Int terms or ints

    @staticmethod
    def of(x):
        if isinstance(x, CStr):
            return x
        if type(x) is str:
            return CStr([ord(c) for c in x])
        if isinstance(x, (bytes, bytearray)):
            return CStr(list(x))
        raise EngineLimit(f"CStr.of({type(x).__name__})")

    def __deepcopy__(self, memo):
        return self

    def __len__(self):
        return len(self.cs)

    def __bool__(self):
        return bool(self.cs)

    def __getitem__(self, i):
        if isinstance(i, slice):
            return CStr(self.cs[i])
        return CStr([self.cs[i]])

    def __add__(self, o):
        return CStr(self.cs + CStr.of(o).cs)

    def __radd__(self, o):
        return CStr(CStr.of(o).cs + self.cs)

    def eq_term(self, o):
        o = CStr.of(o)
        if len(o) != len(self):
            return z3.BoolVal(False)
        return z3.And(*[_t(a) == _t(b) for a, b in zip(self.cs, o.cs)]) if self.cs else z3.BoolVal(True)

    def __eq__(self, o):
        if type(o) is str or isinstance(o, CStr):
            return bool(SymBool(self.eq_term(o)))
        return False

    def __ne__(self, o):
        return not self.__eq__(o)

    def concretize(self):
        E = core.eng()
        return "".join(chr(E.concretize(_t(c), limit=130)) for c in self.cs)

    def __hash__(self):
        return hash(self.concretize())

    def __iter__(self):
        return iter(CStr([c]) for c in self.cs)

    def __contains__(self, sub):
        sub = CStr.of(sub)
        if len(sub) != 1:
            raise EngineLimit("substring test on a character string")
        return any(bool(SymBool(_t(c) == _t(sub.cs[0]))) for c in self.cs)

    def __int__(self):
        return int(self.concretize())

    def partition(self, sep):
        sep = CStr.of(sep)
        n, k = len(self.cs), len(sep.cs)
        for i in range(0, n - k + 1):
            if self[i : i + k] == sep:
                return (self[:i], self[i : i + k], self[i + k :])
        return (self, CStr([]), CStr([]))

    def split(self, sep):
        sep = CStr.of(sep)
        out, rest = [], self
        while True:
            a, s_, b = rest.partition(sep)
            out.append(a)
            if not len(s_):
                return out
            rest = b

    def decode(self, *a):
        return self

    def encode(self, *a):
        return self

    def extend(self, other):
        self.cs.extend(CStr.of_bytes(other).cs)

    @staticmethod
    def of_bytes(x):
        if isinstance(x, CStr):
            return x
        if isinstance(x, (bytes, bytearray)):
            return CStr(list(x))
        return CStr.of(x)

    def lstrip(self, chars):
        k = 0
        while k < len(self.cs) and any(bool(SymBool(_t(self.cs[k]) == ord(ch))) for ch in chars):
            k += 1
        return CStr(self.cs[k:])

    def lower(self):
        return CStr([z3.If(z3.And(_t(c) >= 65, _t(c) <= 90), _t(c) + 32, _t(c)) for c in self.cs])

    def startswith(self, p):
        if isinstance(p, tuple):  # any of several prefixes
            return any(self.startswith(q) for q in p)
        p = CStr.of(p)
        return len(p) <= len(self) and self[: len(p)] == p

    def endswith(self, p):
        if isinstance(p, tuple):  # any of several suffixes
            return any(self.endswith(q) for q in p)
        p = CStr.of(p)
        return len(p) <= len(self) and (len(p) == 0 or self[len(self) - len(p) :] == p)

    def isdigit(self):
        return bool(self.cs) and all(bool(SymBool(z3.And(_t(c) >= 48, _t(c) <= 57))) for c in self.cs)

    def to_int(self, base=10):
        """int(self, base): digits only (the patterns guarantee it); ValueError otherwise"""
        if not self.cs:
            raise ValueError("invalid literal for int()")
        neg = False
        cs = self.cs
        if bool(SymBool(_t(cs[0]) == ord("-"))):
            neg, cs = True, cs[1:]
        v = z3.IntVal(0)
        for c in cs:
            d = _t(c)
            dec = z3.And(d >= 48, d <= 57)
            if base == 16:
                valid = z3.Or(dec, z3.And(d >= 97, d <= 102), z3.And(d >= 65, d <= 70))
                dv = z3.If(d <= 57, d - 48, z3.If(d <= 70, d - 55, d - 87))
            else:
                valid, dv = dec, d - 48
            if not bool(SymBool(valid)):  # one decision per character (no fork when the character class is known)
                raise ValueError("invalid literal for int()")
            v = v * base + dv
        v = z3.simplify(-v if neg else v)
        return SymInt(v)

    def to_float(self):
        """float('.ddd') / float('ddd'): an exact rational modelled as a real"""
        cs = self.cs
        v, scale, seen_dot = z3.RealVal(0), z3.RealVal(1), False
        for c in cs:
            d = _t(c)
            if bool(SymBool(d == ord("."))):
                if seen_dot:
                    raise ValueError("could not convert string to float")
                seen_dot = True
                continue
            if not bool(SymBool(z3.And(d >= 48, d <= 57))):
                raise ValueError("could not convert string to float")
            v = v * 10 + z3.ToReal(d - 48)
            if seen_dot:
                scale = scale * 10
        return core.SymFloat(z3.simplify(v / scale))

    def sx_eval(self, m):
        return "".join(chr(m.eval(_t(c), model_completion=True).as_long()) for c in self.cs)

    def __repr__(self):
        return "CStr(" + ",".join(str(z3.simplify(_t(c))) for c in self.cs) + ")"

    def __str__(self):
        raise EngineLimit("str() of a symbolic character string (unlifted path)")

    def __format__(self, spec):
        raise EngineLimit("format() of a symbolic character string")


def _t(c):
    return c if isinstance(c, z3.ExprRef) else z3.IntVal(int(c))


# ------------------------------------------------------------ (b) symbolic matcher
def _in_class(items, ch, icase=False):
    if icase:
        lower = z3.If(z3.And(ch >= 65, ch <= 90), ch + 32, ch)
        upper = z3.If(z3.And(ch >= 97, ch <= 122), ch - 32, ch)
        neg = any(op is C.NEGATE for op, _ in items)
        plain = [it for it in items if it[0] is not C.NEGATE]
        e = z3.Or(_in_class(plain, ch), _in_class(plain, lower), _in_class(plain, upper))
        return z3.Not(e) if neg else e
    conds, negate = [], False
    for op, av in items:
        if op is C.LITERAL:
            conds.append(ch == av)
        elif op is C.RANGE:
            conds.append(z3.And(ch >= av[0], ch <= av[1]))
        elif op is C.CATEGORY:
            if av is C.CATEGORY_DIGIT:
                conds.append(z3.And(ch >= 48, ch <= 57))
            elif av is C.CATEGORY_WORD:
                conds.append(z3.Or(z3.And(ch >= 48, ch <= 57), z3.And(ch >= 65, ch <= 90), z3.And(ch >= 97, ch <= 122), ch == 95))
            else:
                raise EngineLimit(f"category {av}")
        elif op is C.NEGATE:
            negate = True
        else:
            raise EngineLimit(f"class item {op}")
    e = z3.Or(*conds) if conds else z3.BoolVal(False)
    return z3.Not(e) if negate else e


class SxMatch:
    def __init__(self, s, start, end, groups, ngroups, groupindex):
        self.string, self._start, self._end, self._g, self._n, self._gi = s, start, end, groups, ngroups, groupindex

    def _span(self, i):
        if isinstance(i, str):
            i = self._gi[i]
        if i == 0:
            return (self._start, self._end)
        return self._g.get(i)

    def group(self, i=0):
        sp = self._span(i)
        return None if sp is None else self.string[sp[0] : sp[1]]

    __getitem__ = group

    def groups(self, default=None):
        return tuple(self.group(i) if self._span(i) is not None else default for i in range(1, self._n + 1))

    def start(self, i=0):
        sp = self._span(i)
        return -1 if sp is None else sp[0]

    def end(self, i=0):
        sp = self._span(i)
        return -1 if sp is None else sp[1]


class SxPattern:
    """Drop-in for a compiled pattern; symbolic on CStr, delegating on str."""

    def __init__(self, real):
        self.real = real
        self.pattern = real.pattern
        self.groups = real.groups
        self.groupindex = dict(real.groupindex)
        self.tree = sre_parse.parse(real.pattern, real.flags & ~re.UNICODE if real.flags & re.ASCII else real.flags)
        self.icase = bool(real.flags & re.IGNORECASE)
        if real.flags & ~(re.ASCII | re.IGNORECASE | re.UNICODE):
            raise EngineLimit(f"regex flags {real.flags!r}")

    # -- backtracking: generators of (end position, groups) in re's preference order
    def _seq(self, nodes, k, s, pos, groups):
        if k == len(nodes):
            yield pos, groups
            return
        op, av = nodes[k]
        for p2, g2 in self._node(op, av, s, pos, groups):
            yield from self._seq(nodes, k + 1, s, p2, g2)

    def _node(self, op, av, s, pos, groups):
        n = len(s)
        if op is C.LITERAL:
            same = z3.Or(_t(s.cs[pos]) == av, *[_t(s.cs[pos]) == a for a, _b in (_swap_ranges(av, av) if self.icase else [])]) if pos < n else None
            if pos < n and bool(SymBool(same)):
                yield pos + 1, groups
        elif op is C.NOT_LITERAL:
            same = z3.Or(_t(s.cs[pos]) == av, *[_t(s.cs[pos]) == a for a, _b in (_swap_ranges(av, av) if self.icase else [])]) if pos < n else None
            if pos < n and bool(SymBool(z3.Not(same))):
                yield pos + 1, groups
        elif op is C.ANY:
            if pos < n and bool(SymBool(_t(s.cs[pos]) != 10)):
                yield pos + 1, groups
        elif op is C.IN:
            if pos < n and bool(SymBool(_in_class(av, _t(s.cs[pos]), self.icase))):
                yield pos + 1, groups
        elif op is C.SUBPATTERN:
            gid, _, _, sub = av
            for p2, g2 in self._seq(list(sub), 0, s, pos, groups):
                if gid is not None:
                    g2 = dict(g2)
                    g2[gid] = (pos, p2)
                yield p2, g2
        elif op is C.BRANCH:
            for alt in av[1]:
                yield from self._seq(list(alt), 0, s, pos, groups)
        elif op is C.MAX_REPEAT:
            lo, hi, sub = av
            yield from self._rep(list(sub), lo, hi, s, pos, groups, 0, True)
        elif op is C.MIN_REPEAT:
            lo, hi, sub = av
            yield from self._rep(list(sub), lo, hi, s, pos, groups, 0, False)
        else:
            raise EngineLimit(f"regex op {op}")

    def _rep(self, sub, lo, hi, s, pos, groups, count, greedy):
        can_more = hi is C.MAXREPEAT or count < hi
        if not greedy and count >= lo:
            yield pos, groups
        if can_more:
            for p2, g2 in self._seq(sub, 0, s, pos, groups):
                if p2 == pos:
                    # an empty iteration is accepted once and ends the loop (as re does)
                    if count + 1 >= lo:
                        yield pos, g2
                    continue
                yield from self._rep(sub, lo, hi, s, p2, g2, count + 1, greedy)
        if greedy and count >= lo:
            yield pos, groups

    def _try(self, s, start, full):
        for end, groups in self._seq(list(self.tree), 0, s, start, {}):
            if full and end != len(s):
                continue
            return SxMatch(s, start, end, groups, self.groups, self.groupindex)
        return None

    def fullmatch(self, s, *a):
        if type(s) is str:
            return self.real.fullmatch(s, *a)
        return self._try(CStr.of(s), 0, True)

    def match(self, s, pos=0):
        if type(s) is str:
            return self.real.match(s, pos)
        return self._try(CStr.of(s), pos, False)

    def findall(self, s):
        if type(s) is str:
            return self.real.findall(s)
        s = CStr.of(s)
        out, pos = [], 0
        while pos <= len(s):
            m = SxPattern.search(self, s, pos)
            if m is None:
                break
            g = m.groups()
            out.append(g if self.groups > 1 else (g[0] if self.groups == 1 else m.group()))
            pos = m.end() if m.end() > m.start() else m.end() + 1
        return out

    def search(self, s, pos=0):
        if type(s) is str:
            return self.real.search(s, pos)
        s = CStr.of(s)
        for st in range(pos, len(s) + 1):
            m = self._try(s, st, False)
            if m is not None:
                return m
        return None


def selftest(patterns, alphabet, maxlen=3):
    """Differential validation of the matcher against ``re`` on concrete strings
    (run through the symbolic code with constant characters)."""
    n = 0
    for pat in patterns:
        sp = SxPattern(pat)
        for ln in range(maxlen + 1):
            for tup in itertools.product(alphabet, repeat=ln):
                s = "".join(tup)
                cs = CStr.of(s)
                for kind in ("fullmatch", "match", "search"):
                    r = getattr(pat, kind)(s)
                    m = {"fullmatch": sp._try(cs, 0, True), "match": sp._try(cs, 0, False)}.get(kind) if kind != "search" else SxPattern.search(sp, cs)
                    n += 1
                    if (r is None) != (m is None):
                        raise AssertionError(f"matcher disagrees with re: {pat.pattern!r} {kind} {s!r}")
                    if r is not None:
                        got = tuple(None if g is None else "".join(chr(c) for c in g.cs) for g in m.groups())
                        if got != r.groups() or (m.start(), m.end()) != (r.start(), r.end()):
                            raise AssertionError(f"matcher groups differ from re: {pat.pattern!r} {kind} {s!r}: {got} vs {r.groups()}")
    return n
