"""Engine S — proxy-based symbolic execution of real Python code with z3.

The code under analysis is executed by CPython itself; symbolic values are
proxy objects (SymInt / SymBool / SymFloat / TStr ...).  Every ``bool()`` of a
symbolic condition asks the engine which side to follow: the engine replays a
decision prefix, checks feasibility of both sides with an incremental z3
solver and queues the untaken side (DFS by re-execution).

Soundness policy (DESIGN.md 2.2.2): anything that is not modelled raises
``EngineLimit`` (a BaseException) -- it is never turned into a default value.
Feasibility checks are advisory (``unknown`` => explore both sides); only the
``unsat`` verdicts of claim queries carry a claim.
"""
from __future__ import annotations

import itertools
import math
import time

import z3


class EngineLimit(BaseException):
    """The engine cannot model the operation: the path is inconclusive."""


class Abort(BaseException):
    """The current path is infeasible (or was pruned by an assumption)."""


class PathBudget(BaseException):
    """Exploration budget exhausted."""


import os as _os

_TRACE = bool(_os.environ.get("SX_TRACE"))
U = z3.RealVal(1) / (2**53)  # unit round-off of IEEE double


def _is_true(e):
    return z3.is_true(e)


def _is_false(e):
    return z3.is_false(e)


class Claim:
    __slots__ = ("name", "status", "time", "model", "key", "note")

    def __init__(self, name, status, time_, model=None, key=None, note=None):
        self.name, self.status, self.time, self.model = name, status, time_, model
        self.key, self.note = key, note


class Engine:
    """One engine per (check, shape).  ``concrete`` = dict of input values turns
    the engine into a plain evaluator used by replays and cross-checks."""

    def __init__(self, concrete=None, feas_timeout_ms=1500, claim_timeout_ms=20000, seed=0):
        self.concrete = concrete
        self.fl_functional = False
        self.max_depth = 600
        self.path_seconds = 120
        self.path_deadline = None
        self.solver = z3.Solver()
        self.solver.set("timeout", feas_timeout_ms)
        if seed:
            self.solver.set("random_seed", seed & 0x7FFFFFFF)
        self.feas_timeout_ms = feas_timeout_ms
        self.claim_timeout_ms = claim_timeout_ms
        self.seed = seed
        # statistics
        self.paths = 0
        self.feas_queries = 0
        self.claim_queries = 0
        self.solver_time = 0.0
        self.claims = []  # Claim objects (deduplicated)
        self._claim_keys = set()
        self.limits = []  # (decisions, message)
        self.limit_models = []  # (model, message): solver-chosen inputs leading to a path the engine could not finish
        self._limit_seen = {}
        self.inputs = {}  # name -> z3 const (declaration order)
        self.mc_states = set()
        self.mc_transitions = set()
        self.observations = []  # per path: (decisions, pc-model-able dict)
        self.path_samples = []
        self.active = False
        # per path
        self.decisions = []
        self.pos = 0
        self.pc = []
        self.pending = []
        self.fresh = itertools.count()
        self.fl_cache = {}
        self.path_obs = {}
        self.fresh_ctr = {}
        self._occ = {}
        self.known = {}

    # ------------------------------------------------------------------ inputs
    def _declare(self, name, const, constraints):
        self.inputs[name] = const
        for c in constraints:
            self._add(c)

    def int(self, name, lo=None, hi=None):
        if self.concrete is not None:
            v = int(self.concrete.get(name, lo if lo is not None else 0))
            if (lo is not None and v < lo) or (hi is not None and v > hi):
                raise Abort(f"concrete input {name}={v} outside its declared range")
            return v
        c = z3.Int(name)
        cons = []
        if lo is not None:
            cons.append(c >= lo)
        if hi is not None:
            cons.append(c <= hi)
        self._declare(name, c, cons)
        return SymInt(c)

    def bool(self, name):
        if self.concrete is not None:
            return bool(self.concrete.get(name, False))
        c = z3.Bool(name)
        self._declare(name, c, [])
        return SymBool(c)

    def real(self, name, lo=None, hi=None):
        """A float input (modelled as a real; see SymFloat)."""
        if self.concrete is not None:
            v = self.concrete[name]
            if isinstance(v, str):
                num, _, den = v.partition("/")
                v = int(num) / int(den or 1)
            return float(v)
        c = z3.Real(name)
        cons = []
        if lo is not None:
            cons.append(c >= _rv(lo))
        if hi is not None:
            cons.append(c <= _rv(hi))
        self._declare(name, c, cons)
        return SymFloat(c)

    def string(self, name):
        """A z3 String input (unbounded length; used for regular-language queries)."""
        if self.concrete is not None:
            return str(self.concrete[name])
        c = z3.String(name)
        self._declare(name, c, [])
        return c

    def choice(self, name, n):
        """A finite selector in range(n): a solver variable the engine forks over."""
        if self.concrete is not None:
            return int(self.concrete.get(name, 0))
        v = self.int(name, 0, n - 1)
        return self.concretize(v.e, limit=n)

    def fresh_int(self, prefix, lo=None, hi=None):
        """An environment-chosen integer (stub result): universally quantified like an
        input; named by its per-prefix call index so that a replay hands the same
        values to the same stub calls."""
        k = self.fresh_ctr.get(prefix, 0)
        self.fresh_ctr[prefix] = k + 1
        name = f"{prefix}!{k}"
        if self.concrete is not None and name not in self.concrete:
            self.concrete[name] = lo if lo is not None else 0
        return self.int(name, lo, hi)

    def fresh_bool(self, prefix):
        k = self.fresh_ctr.get(prefix, 0)
        self.fresh_ctr[prefix] = k + 1
        name = f"{prefix}!{k}"
        if self.concrete is not None and name not in self.concrete:
            self.concrete[name] = False
        return self.bool(name)

    def fresh_name(self, prefix):
        return f"{prefix}!{next(self.fresh)}"

    # ------------------------------------------------------------- path control
    def _add(self, c):
        self.pc.append(c)
        self.solver.add(c)

    def assume(self, cond):
        """Restrict the inputs (a stated precondition)."""
        if self.concrete is not None:
            if not _truth(cond):
                raise Abort("assumption false on concrete inputs")
            return
        c = _boolterm(cond)
        c = z3.simplify(c)
        if _is_true(c):
            return
        self._add(c)
        self.feas_queries += 1
        t = time.time()
        r = self.solver.check()
        self.solver_time += time.time() - t
        if r == z3.unsat:
            raise Abort("assumption infeasible")

    def branch(self, cond):
        """Truth value of the z3 Bool ``cond`` on the current path."""
        cond = z3.simplify(cond)
        if _is_true(cond):
            return True
        if _is_false(cond):
            return False
        # a condition already decided on this path (hash-consed identical term)
        hit = self.known.get(cond.get_id())
        if hit is not None:
            return hit[0]
        if z3.is_not(cond):
            hit = self.known.get(cond.arg(0).get_id())
            if hit is not None:
                return not hit[0]
        d = self._branch(cond)
        self.known[cond.get_id()] = (d, cond)
        return d

    def _branch(self, cond):
        if self.pos >= self.max_depth:
            raise EngineLimit(f"path deeper than {self.max_depth} decisions (unbounded loop under 'unknown' feasibility?)")
        if self.path_deadline and time.time() > self.path_deadline:
            raise EngineLimit("per-path time limit")
        if self.pos < len(self.decisions):
            d = self.decisions[self.pos]
            self.pos += 1
            if not isinstance(d, bool):
                raise EngineLimit("non-deterministic re-execution (branch vs concretize)")
            self._add(cond if d else z3.Not(cond))
            return d
        t0 = time.time()
        self.feas_queries += 1
        self.solver.push()
        self.solver.add(cond)
        t = self.solver.check()
        self.solver.pop()
        ts = t != z3.unsat
        fs = True
        if ts:
            self.feas_queries += 1
            self.solver.push()
            self.solver.add(z3.Not(cond))
            f = self.solver.check()
            self.solver.pop()
            fs = f != z3.unsat
        self.solver_time += time.time() - t0
        if ts and fs:
            self.pending.append(self.decisions[: self.pos] + [False])
            d = True
        elif ts:
            d = True
        else:
            d = False
        self.decisions.append(d)
        self.pos += 1
        self._add(cond if d else z3.Not(cond))
        return d

    def possible(self, cond):
        """False only if ``cond`` is infeasible on the current path (no forking)."""
        cond = z3.simplify(cond)
        if _is_true(cond):
            return True
        if _is_false(cond):
            return False
        t0 = time.time()
        self.feas_queries += 1
        self.solver.push()
        self.solver.add(cond)
        r = self.solver.check()
        self.solver.pop()
        self.solver_time += time.time() - t0
        return r != z3.unsat

    def concretize(self, e, limit=64):
        """Fork over all feasible integer values of ``e`` (at most ``limit``)."""
        e = z3.simplify(e)
        if z3.is_int_value(e):
            return e.as_long()
        if self.pos < len(self.decisions):
            d = self.decisions[self.pos]
            self.pos += 1
            if isinstance(d, bool) or not isinstance(d, tuple):
                raise EngineLimit("non-deterministic re-execution (concretize vs branch)")
            self._add(e == d[1])
            return d[1]
        vals = []
        t0 = time.time()
        self.solver.push()
        try:
            while len(vals) <= limit:
                self.feas_queries += 1
                r = self.solver.check()
                if r == z3.unknown:
                    # forking needs a definite answer: retry once with the (longer) claim time-out
                    self.solver.set("timeout", self.claim_timeout_ms)
                    try:
                        r = self.solver.check()
                    finally:
                        self.solver.set("timeout", self.feas_timeout_ms)
                if r == z3.unsat:
                    break
                if r != z3.sat:
                    raise EngineLimit("concretize: solver unknown")
                v = self.solver.model().eval(e, model_completion=True)
                if not z3.is_int_value(v):
                    raise EngineLimit("concretize: non-integer model value")
                v = v.as_long()
                vals.append(v)
                self.solver.add(e != v)
        finally:
            self.solver.pop()
            self.solver_time += time.time() - t0
        if len(vals) > limit:
            raise EngineLimit(f"concretize: more than {limit} feasible values for {e}")
        if not vals:
            raise Abort("concretize: infeasible path")
        vals.sort()
        for v in vals[1:]:
            self.pending.append(self.decisions[: self.pos] + [("v", v)])
        self.decisions.append(("v", vals[0]))
        self.pos += 1
        self._add(e == vals[0])
        return vals[0]

    # ------------------------------------------------------------------ claims
    def claim(self, name, cond, note=None):
        """Assert that ``cond`` holds for every input reaching this point."""
        if self.concrete is not None:
            ok = _truth(cond)
            self.claims.append(Claim(name, "holds" if ok else "VIOLATED", 0.0, note=note))
            return ok
        # deduplicate by (decision prefix, claim name, occurrence index on this prefix):
        # re-execution is deterministic, so the same key means the same query
        prefix = tuple(self.decisions[: self.pos])
        occ = self._occ.get((prefix, name), 0)
        self._occ[(prefix, name)] = occ + 1
        key = (prefix, name, occ)
        if key in self._claim_keys:
            return None
        self._claim_keys.add(key)
        c = z3.simplify(_boolterm(cond))
        if _is_true(c):
            self.claims.append(Claim(name, "unsat", 0.0, key=key, note="trivial"))
            return True
        s = self.solver
        s.push()
        s.set("timeout", self.claim_timeout_ms)
        s.add(z3.Not(c))
        t = time.time()
        self.claim_queries += 1
        r = s.check()
        dt = time.time() - t
        self.solver_time += dt
        model = None
        if r == z3.sat:
            m = s.model()
            model = self._model_dict(m)
        s.pop()
        s.set("timeout", self.feas_timeout_ms)
        status = str(r)
        self.claims.append(Claim(name, status, dt, model, key=key, note=note))
        return r == z3.unsat

    def record_claim(self, name, status, seconds, model=None, note=None):
        """Record the verdict of a query discharged by a dedicated solver instance (Engine B)."""
        prefix = tuple(self.decisions[: self.pos])
        occ = self._occ.get((prefix, name), 0)
        self._occ[(prefix, name)] = occ + 1
        self.claim_queries += 1
        self.solver_time += seconds
        self.claims.append(Claim(name, status, seconds, model, key=(prefix, name, occ), note=note))

    def reachable(self, name="reach"):
        """Vacuity twin: the claim ``False`` here must come back sat."""
        if self.concrete is not None:
            self.claims.append(Claim("twin:" + name, "reached", 0.0))
            return
        s = self.solver
        t = time.time()
        r = s.check()
        self.solver_time += time.time() - t
        key = (tuple(self.decisions[: self.pos]), "twin:" + name)
        if key in self._claim_keys:
            return
        self._claim_keys.add(key)
        model = self._model_dict(s.model()) if r == z3.sat else None
        self.claims.append(Claim("twin:" + name, {"sat": "reached", "unsat": "unreachable"}.get(str(r), "unknown"), 0.0, model, key=key))

    def step(self, label):
        """Record one transition of a state-machine harness (operation applied on the
        current symbolic state = decision prefix)."""
        prefix = tuple(self.decisions[: self.pos])
        self.mc_states.add(prefix)
        self.mc_transitions.add((prefix, label, self._occ.get(("step", label), 0)))
        self._occ[("step", label)] = self._occ.get(("step", label), 0) + 1

    def observe(self, name, value):
        """Record an observable for the concretisation cross-check."""
        self.path_obs[name] = value

    def _model_dict(self, m):
        out = {}
        for name, c in self.inputs.items():
            v = m.eval(c, model_completion=True)
            if z3.is_int_value(v):
                out[name] = v.as_long()
            elif z3.is_true(v) or z3.is_false(v):
                out[name] = z3.is_true(v)
            elif z3.is_rational_value(v):
                out[name] = f"{v.numerator_as_long()}/{v.denominator_as_long()}"
            elif z3.is_string_value(v):
                out[name] = _z3_string(v)
            elif z3.is_algebraic_value(v):
                a = v.approx(20)
                out[name] = f"{a.numerator_as_long()}/{a.denominator_as_long()}"
            else:
                out[name] = str(v)
        return out

    # --------------------------------------------------------------- exploring
    def explore(self, body, max_paths=20000, budget_s=None, sample_models=True):
        """Run ``body(engine)`` once per feasible path.  Returns the list of
        (decisions, outcome) where outcome is 'ok', 'abort' or ('limit', msg)."""
        global ENG
        if self.concrete is not None:
            ENG_prev = ENG
            ENG = None
            try:
                self._occ = {}
                self.path_obs = {}
                body(self)
                self.paths = 1
                self.observations.append(dict(self.path_obs))
            finally:
                ENG = ENG_prev
            return [((), "ok")]
        outcomes = []
        stack = [[]]
        t_start = time.time()
        self.incomplete = None
        while stack:
            if self.paths >= max_paths:
                self.incomplete = f"path budget {max_paths} exhausted; {len(stack)} prefixes unexplored"
                break
            if budget_s is not None and time.time() - t_start > budget_s:
                self.incomplete = f"time budget {budget_s}s exhausted; {len(stack)} prefixes unexplored"
                break
            prefix = stack.pop()
            self.decisions = list(prefix)
            self.pos = 0
            self.pc = []
            self.pending = []
            self.fresh = itertools.count()
            self.fl_cache = {}
            self.path_obs = {}
            self._occ = {}
            self.fresh_ctr = {}
            self.known = {}
            self.path_deadline = time.time() + self.path_seconds
            self.solver.push()
            ENG = self
            self.active = True
            try:
                try:
                    body(self)
                    outcome = "ok"
                except Abort:
                    outcome = "abort"
                except EngineLimit as e:
                    if _TRACE:
                        import traceback

                        traceback.print_exc()
                    outcome = ("limit", str(e)[:300])
                    self.limits.append((_dec_repr(self.decisions[: self.pos]), str(e)[:300]))
                    why = str(e)[:60]
                    if len(self.limit_models) < 12 and self._limit_seen.get(why, 0) < 3:
                        # concolic fall-back: an input satisfying the path condition up to the limit, to be run on the real code
                        self._limit_seen[why] = self._limit_seen.get(why, 0) + 1
                        t = time.time()
                        r = self.solver.check()
                        self.solver_time += time.time() - t
                        if r == z3.sat:
                            self.limit_models.append((self._model_dict(self.solver.model()), why))
                if outcome == "ok" and sample_models and self.path_obs:
                    # model for the concretisation cross-check
                    t = time.time()
                    r = self.solver.check()
                    self.solver_time += time.time() - t
                    if r == z3.sat:
                        m = self.solver.model()
                        self.observations.append((self._model_dict(m), {k: _eval_obs(m, v) for k, v in self.path_obs.items()}))
                if outcome == "ok" and len(self.path_samples) < 6:
                    self.path_samples.append({"decisions": _dec_repr(self.decisions[: self.pos]), "path_condition": [str(z3.simplify(c))[:160] for c in self.pc[-8:]]})
            finally:
                ENG = None
                self.active = False
                self.solver.pop()
            outcomes.append((tuple(self.decisions[: self.pos]), outcome))
            stack.extend(self.pending)
            self.paths += 1
        return outcomes


def _z3_string(v):
    import re as _re

    s = v.as_string()
    return _re.sub(r"\\u\{([0-9a-fA-F]+)\}", lambda m: chr(int(m.group(1), 16)), s)


def _dec_repr(decs):
    return "".join(("T" if d else "F") if isinstance(d, bool) else f"[{d[1]}]" for d in decs)


def _eval_obs(m, v):
    if isinstance(v, (SymInt, SymBool, SymFloat)):
        r = m.eval(v.e, model_completion=True)
        if z3.is_int_value(r):
            return r.as_long()
        if z3.is_true(r) or z3.is_false(r):
            return z3.is_true(r)
        if z3.is_rational_value(r):
            return f"{r.numerator_as_long()}/{r.denominator_as_long()}"
        return str(r)
    if isinstance(v, (tuple, list)):
        return [_eval_obs(m, x) for x in v]
    if hasattr(v, "sx_eval"):
        return v.sx_eval(m)
    if isinstance(v, (int, str, bool, float)) or v is None:
        return v
    return repr(v)


ENG: Engine | None = None


def eng() -> Engine:
    if ENG is None:
        raise EngineLimit("symbolic value used outside an exploration")
    return ENG


def _rv(x):
    if isinstance(x, z3.ExprRef):
        return x
    if isinstance(x, float):
        n, d = x.as_integer_ratio()
        return z3.RealVal(n) / z3.RealVal(d) if d != 1 else z3.RealVal(n)
    return z3.RealVal(x)


# ------------------------------------------------------------------- lifting
def is_sym(x):
    return isinstance(x, Sym)


def lift(x):
    if isinstance(x, Sym):
        return x
    t = type(x)
    if t is bool:
        return SymBool(z3.BoolVal(x))
    if t is int:
        return SymInt(z3.IntVal(x))
    if t is float:
        if x != x or x in (math.inf, -math.inf):
            raise EngineLimit("non-finite float")
        return SymFloat(_rv(x))
    if isinstance(x, int):  # IntEnum etc.
        return SymInt(z3.IntVal(int(x)))
    raise EngineLimit(f"cannot lift {t.__name__} to a numeric term")


def _boolterm(x):
    if isinstance(x, SymBool):
        return x.e
    if isinstance(x, z3.BoolRef):
        return x
    if isinstance(x, bool):
        return z3.BoolVal(x)
    if isinstance(x, SymInt):
        return x.e != 0
    raise EngineLimit(f"not a boolean term: {type(x).__name__}")


def _truth(x):
    """Concrete truth of a claim value (concrete mode)."""
    if type(x) is bool:
        return x
    if isinstance(x, SymBool):
        x = x.e
    if isinstance(x, z3.BoolRef):
        s = z3.simplify(x)
        if _is_true(s):
            return True
        if _is_false(s):
            return False
        raise EngineLimit(f"claim not concrete in concrete mode: {s}")
    return bool(x)


class Sym:
    """Base of numeric proxies."""

    __slots__ = ("e",)

    def __deepcopy__(self, memo):
        return self

    def __copy__(self):
        return self

    def __reduce__(self):
        raise EngineLimit("pickling a symbolic value")


class SymBool(Sym):
    __slots__ = ()
    __class__ = property(lambda s: bool)  # isinstance(x, bool) in code under test

    def __init__(self, e):
        self.e = e

    def __bool__(self):
        e = z3.simplify(self.e)
        if _is_true(e):
            return True
        if _is_false(e):
            return False
        return eng().branch(e)

    def _int(self):
        return SymInt(z3.If(self.e, z3.IntVal(1), z3.IntVal(0)))

    def __eq__(self, o):
        if isinstance(o, (SymBool, bool)):
            return SymBool(self.e == _boolterm(o))
        if isinstance(o, (int, float, SymInt, SymFloat)):
            return self._int() == o
        return False

    def __ne__(self, o):
        r = self.__eq__(o)
        return (not r) if isinstance(r, bool) else SymBool(z3.Not(r.e))

    def __hash__(self):
        return hash(bool(self))

    def __invert__(self):
        return ~self._int()

    def __and__(self, o):
        if isinstance(o, (SymBool, bool)):
            return SymBool(z3.And(self.e, _boolterm(o)))
        return self._int() & o

    __rand__ = __and__

    def __or__(self, o):
        if isinstance(o, (SymBool, bool)):
            return SymBool(z3.Or(self.e, _boolterm(o)))
        return self._int() | o

    __ror__ = __or__

    def __xor__(self, o):
        if isinstance(o, (SymBool, bool)):
            return SymBool(z3.Xor(self.e, _boolterm(o)))
        return NotImplemented

    def __index__(self):
        return int(bool(self))

    __int__ = __index__

    def __add__(self, o):
        return self._int() + o

    def __radd__(self, o):
        return o + self._int()

    def __sub__(self, o):
        return self._int() - o

    def __rsub__(self, o):
        return o - self._int()

    def __mul__(self, o):
        if isinstance(o, (int, float, Sym)):
            return self._int() * o
        # sequence repetition: "abc" * symbolic bool -> fork
        return o * int(bool(self))

    __rmul__ = __mul__

    def __neg__(self):
        return -self._int()

    def __lt__(self, o):
        return self._int() < o

    def __le__(self, o):
        return self._int() <= o

    def __gt__(self, o):
        return self._int() > o

    def __ge__(self, o):
        return self._int() >= o

    def __repr__(self):
        return f"SymBool({self.e})"

    def __format__(self, spec):
        raise EngineLimit("format() of a symbolic bool")


def _num(x):
    """z3 term + kind ('i' or 'r') of a numeric operand, or None."""
    if isinstance(x, SymInt):
        return x.e, "i"
    if isinstance(x, SymFloat):
        return x.e, "r"
    if isinstance(x, SymBool):
        return x._int().e, "i"
    t = type(x)
    if t is bool:
        return z3.IntVal(int(x)), "i"
    if t is int or (isinstance(x, int) and not isinstance(x, Sym)):
        return z3.IntVal(int(x)), "i"
    if t is float:
        if x != x or x in (math.inf, -math.inf):
            raise EngineLimit("non-finite float")
        return _rv(x), "r"
    return None


def _real(term, kind):
    return z3.ToReal(term) if kind == "i" else term


def _is_pow2_const(x):
    if type(x) in (int, float) and x > 0:
        m, _ = math.frexp(float(x))
        return m == 0.5
    return False


def fl(op, exact, operands, exact_ok=False):
    """Result of one floating-point operation whose exact real value is ``exact``.

    Sound relaxation of IEEE-754 double (round-to-nearest, no overflow/underflow):
    the result r satisfies |r - exact| <= |exact| * 2^-53.  Identical operations on
    identical operands share one result term (``fl_cache``)."""
    ex = z3.simplify(exact)
    if exact_ok:
        return SymFloat(ex)
    if z3.is_rational_value(ex):
        # a concrete value: compute the double exactly
        v = ex.numerator_as_long() / ex.denominator_as_long()
        return SymFloat(_rv(v))
    E = eng()
    key = (op,) + tuple(o.get_id() for o in operands)
    hit = E.fl_cache.get(key)
    if hit is not None:
        return SymFloat(hit[0])
    # the result is an uninterpreted function of the operand VALUES (functional consistency:
    # equal operands give the same double), constrained by the rounding-error bound
    if E.fl_functional:
        ops_r = [o if o.sort() == z3.RealSort() else z3.ToReal(o) for o in operands]
        f = z3.Function(f"fl_{op}", *([z3.RealSort()] * len(ops_r)), z3.RealSort())
        r = f(*ops_r)
    else:
        # independent result per syntactically distinct operation (a superset of behaviours; cheaper to solve)
        r = z3.Real(f"fl!{next(E.fresh)}")
    lo, hi = ex * (1 - U), ex * (1 + U)
    E._add(z3.If(ex >= 0, z3.And(r >= lo, r <= hi), z3.And(r >= hi, r <= lo)))
    E.fl_cache[key] = (r, operands)  # keep operands alive: ids stay unique
    return SymFloat(r)


class SymNum(Sym):
    __slots__ = ()

    def _cmp(self, o, op):
        b = _num(o)
        if b is None:
            return NotImplemented
        a = _num(self)
        if a[1] == "i" and b[1] == "i":
            return SymBool(op(a[0], b[0]))
        return SymBool(op(_real(*a), _real(*b)))

    def __lt__(self, o):
        return self._cmp(o, lambda a, b: a < b)

    def __le__(self, o):
        return self._cmp(o, lambda a, b: a <= b)

    def __gt__(self, o):
        return self._cmp(o, lambda a, b: a > b)

    def __ge__(self, o):
        return self._cmp(o, lambda a, b: a >= b)

    def __eq__(self, o):
        r = self._cmp(o, lambda a, b: a == b)
        return False if r is NotImplemented else r

    def __ne__(self, o):
        r = self._cmp(o, lambda a, b: a != b)
        return True if r is NotImplemented else r

    def __bool__(self):
        return bool(self != 0)

    def __pos__(self):
        return self

    def __truediv__(self, o):
        b = _num(o)
        if b is None:
            return NotImplemented
        a = _num(self)
        E = eng()
        if bool(SymBool(_real(*b) == 0)):
            raise ZeroDivisionError("division by zero")
        ex = _real(*a) / _real(*b)
        r = fl("div", ex, (a[0], b[0]), exact_ok=_is_pow2_const(o))
        if a[1] == "i" and type(o) is int and o > 0 and _is_pow2_const(o):
            r = SymFloat(r.e, ratio=(a[0], o))  # exact integer quotient (DESIGN 2.2.1)
        return r

    def __rtruediv__(self, o):
        a = _num(o)
        if a is None:
            return NotImplemented
        b = _num(self)
        if bool(SymBool(_real(*b) == 0)):
            raise ZeroDivisionError("division by zero")
        return fl("div", _real(*a) / _real(*b), (a[0], b[0]))


def _pyfloordiv(a, b):
    """Python floor division on z3 Ints (z3 `/` on Int is Euclidean)."""
    if z3.is_int_value(b):
        bv = b.as_long()
        if bv > 0:
            return a / b
        return (-a) / z3.IntVal(-bv)
    return z3.If(b > 0, a / b, (-a) / (-b))


class SymInt(SymNum):
    __slots__ = ()
    __class__ = property(lambda s: int)

    def __init__(self, e):
        self.e = e

    def _bin(self, o, fi, ff, opname):
        b = _num(o)
        if b is None:
            return NotImplemented
        if b[1] == "i":
            return SymInt(z3.simplify(fi(self.e, b[0])))
        return ff(z3.ToReal(self.e), b[0], o)

    def __add__(self, o):
        return self._bin(o, lambda a, b: a + b, lambda a, b, _: fl("add", a + b, (a, b)), "add")

    __radd__ = __add__

    def __sub__(self, o):
        return self._bin(o, lambda a, b: a - b, lambda a, b, _: fl("sub", a - b, (a, b)), "sub")

    def __rsub__(self, o):
        return self._bin(o, lambda a, b: b - a, lambda a, b, _: fl("sub", b - a, (b, a)), "rsub")

    def __mul__(self, o):
        if _num(o) is None:
            if isinstance(o, (str, bytes)):
                from . import tstr

                return tstr.T(o, isinstance(o, bytes)) * self
            if isinstance(o, (list, tuple)):
                return o * eng().concretize(self.e)
            return NotImplemented
        return self._bin(
            o,
            lambda a, b: a * b,
            lambda a, b, oo: fl("mul", a * b, (a, b), exact_ok=_is_pow2_const(oo)),
            "mul",
        )

    __rmul__ = __mul__

    def _divcheck(self, o):
        b = _num(o)
        if b is None:
            return None
        if b[1] != "i":
            raise EngineLimit("floor division / modulo by a float")
        if bool(SymBool(b[0] == 0)):
            raise ZeroDivisionError("integer division or modulo by zero")
        return b[0]

    def __floordiv__(self, o):
        b = self._divcheck(o)
        if b is None:
            return NotImplemented
        return SymInt(z3.simplify(_pyfloordiv(self.e, b)))

    def __rfloordiv__(self, o):
        a = _num(o)
        if a is None or a[1] != "i":
            return NotImplemented
        if bool(self == 0):
            raise ZeroDivisionError("integer division or modulo by zero")
        return SymInt(z3.simplify(_pyfloordiv(a[0], self.e)))

    def __mod__(self, o):
        b = self._divcheck(o)
        if b is None:
            return NotImplemented
        return SymInt(z3.simplify(self.e - b * _pyfloordiv(self.e, b)))

    def __rmod__(self, o):
        a = _num(o)
        if a is None or a[1] != "i":
            return NotImplemented
        if bool(self == 0):
            raise ZeroDivisionError("integer division or modulo by zero")
        return SymInt(z3.simplify(a[0] - self.e * _pyfloordiv(a[0], self.e)))

    def __divmod__(self, o):
        return self // o, self % o

    def __pow__(self, o, mod=None):
        if mod is None and type(o) is int and 0 <= o <= 4:
            r = z3.IntVal(1)
            for _ in range(o):
                r = r * self.e
            return SymInt(r)
        raise EngineLimit("symbolic power")

    def __rpow__(self, o):
        if type(o) is int:
            return o ** eng().concretize(self.e)
        raise EngineLimit("symbolic exponent")

    def __neg__(self):
        return SymInt(z3.simplify(-self.e))

    def __abs__(self):
        return SymInt(z3.If(self.e >= 0, self.e, -self.e))

    def __invert__(self):
        return SymInt(-self.e - 1)

    def _bitop(self, o, name):
        b = _num(o)
        if b is None or b[1] != "i":
            return NotImplemented
        if z3.is_int_value(b[0]):
            # exact arithmetic for a concrete mask made of a few bits (self is assumed non-negative:
            # flag words): x & ~m clears the bits of m, x | m sets them
            c = b[0].as_long()
            mask = ~c if (name == "and" and c < 0) else (c if (name == "or" and c >= 0) else None)
            if mask is not None and 0 <= mask < (1 << 32) and bin(mask).count("1") <= 4:
                x = self.e
                for k in range(mask.bit_length()):
                    if mask >> k & 1:
                        bit = (x / (1 << k)) % 2
                        x = x - (1 << k) * bit if name == "and" else x + (1 << k) * (1 - bit)
                return SymInt(z3.simplify(x))
        f = z3.Function("bit_" + name, z3.IntSort(), z3.IntSort(), z3.IntSort())
        return SymInt(f(self.e, b[0]))

    def __and__(self, o):
        return self._bitop(o, "and")

    def __rand__(self, o):
        return lift(o)._bitop(self, "and")

    def __or__(self, o):
        return self._bitop(o, "or")

    def __ror__(self, o):
        return lift(o)._bitop(self, "or")

    def __lshift__(self, o):
        if isinstance(o, SymInt):
            o = eng().concretize(o.e)
        if type(o) is int and 0 <= o < 64:
            return self * (1 << o)
        raise EngineLimit("symbolic shift")

    def __rlshift__(self, o):
        return o << eng().concretize(self.e)

    def __rshift__(self, o):
        # floor division by a power of two (Python's >> on ints is arithmetic)
        if isinstance(o, SymInt):
            o = eng().concretize(o.e)
        if type(o) is int and 0 <= o < 64:
            return self // (1 << o)
        raise EngineLimit("symbolic shift")

    def __rrshift__(self, o):
        return o >> eng().concretize(self.e)

    def __round__(self, n=None):
        return self

    def __ceil__(self):
        return self

    def __floor__(self):
        return self

    def __trunc__(self):
        return self

    def __index__(self):
        return eng().concretize(self.e)

    __int__ = __index__

    def __float__(self):
        raise EngineLimit("float() of a symbolic int needs the __sx_float shadow")

    def __hash__(self):
        return hash(eng().concretize(self.e))

    def __repr__(self):
        return f"SymInt({self.e})"

    def __str__(self):
        raise EngineLimit("str() of a symbolic int (unlifted code path)")

    def __format__(self, spec):
        raise EngineLimit("format() of a symbolic int (unlifted code path)")

    def bit_length(self):
        raise EngineLimit("bit_length of a symbolic int")


class SymFloat(SymNum):
    __slots__ = ("ratio",)
    __class__ = property(lambda s: float)

    def __init__(self, e, ratio=None):
        self.e = e
        self.ratio = ratio

    def _bin(self, o, op, f, exact_ok=False):
        b = _num(o)
        if b is None:
            return NotImplemented
        br = _real(*b)
        return fl(op, f(self.e, br), (self.e, b[0]), exact_ok=exact_ok)

    def __add__(self, o):
        return self._bin(o, "add", lambda a, b: a + b)

    __radd__ = __add__

    def __sub__(self, o):
        return self._bin(o, "sub", lambda a, b: a - b)

    def __rsub__(self, o):
        return self._bin(o, "rsub", lambda a, b: b - a)

    def __mul__(self, o):
        return self._bin(o, "mul", lambda a, b: a * b, exact_ok=_is_pow2_const(o) or (type(o) in (int, float) and o in (0, 1, -1)))

    __rmul__ = __mul__

    def __neg__(self):
        return SymFloat(-self.e)

    def __abs__(self):
        return SymFloat(z3.If(self.e >= 0, self.e, -self.e))

    def __round__(self, n=None):
        if n is not None:
            raise EngineLimit("round() with ndigits")
        if self.ratio is not None:
            raise EngineLimit("round() of an exact quotient")  # not needed so far
        E = eng()
        key = ("round", self.e.get_id())
        hit = E.fl_cache.get(key)
        if hit is not None:
            return SymInt(hit[0])
        k = z3.Int(f"rnd!{next(E.fresh)}")
        # either neighbour allowed at a tie: a superset of round-half-even
        E._add(z3.And(2 * z3.ToReal(k) - 1 <= 2 * self.e, 2 * self.e <= 2 * z3.ToReal(k) + 1))
        E.fl_cache[key] = (k, self.e)
        return SymInt(k)

    def __ceil__(self):
        if self.ratio is not None:
            n, d = self.ratio
            return SymInt(z3.simplify((n + (d - 1)) / z3.IntVal(d)))
        E = eng()
        key = ("ceil", self.e.get_id())
        hit = E.fl_cache.get(key)
        if hit is not None:
            return SymInt(hit[0])
        k = z3.Int(f"ceil!{next(E.fresh)}")
        E._add(z3.And(z3.ToReal(k) >= self.e, z3.ToReal(k) - 1 < self.e))
        E.fl_cache[key] = (k, self.e)
        return SymInt(k)

    def __floor__(self):
        if self.ratio is not None:
            n, d = self.ratio
            return SymInt(z3.simplify(n / z3.IntVal(d)))
        E = eng()
        key = ("floor", self.e.get_id())
        hit = E.fl_cache.get(key)
        if hit is not None:
            return SymInt(hit[0])
        k = z3.Int(f"floor!{next(E.fresh)}")
        E._add(z3.And(z3.ToReal(k) <= self.e, z3.ToReal(k) + 1 > self.e))
        E.fl_cache[key] = (k, self.e)
        return SymInt(k)

    def __trunc__(self):
        # truncation toward zero: floor for x >= 0, ceil for x < 0 (a fresh integer pinned by two inequalities)
        if self.ratio is not None:
            raise EngineLimit("trunc of an exact quotient")
        E = eng()
        key = ("trunc", self.e.get_id())
        hit = E.fl_cache.get(key)
        if hit is not None:
            return SymInt(hit[0])
        k = z3.Int(f"trunc!{next(E.fresh)}")
        kr = z3.ToReal(k)
        E._add(z3.If(self.e >= 0, z3.And(kr <= self.e, kr + 1 > self.e), z3.And(kr >= self.e, kr - 1 < self.e)))
        E.fl_cache[key] = (k, self.e)
        return SymInt(k)

    __int__ = __trunc__

    def __float__(self):
        raise EngineLimit("float() of a symbolic float (unlifted code path)")

    def __hash__(self):
        raise EngineLimit("hash of a symbolic float")

    def __floordiv__(self, o):
        raise EngineLimit("float floor division")

    __rfloordiv__ = __mod__ = __rmod__ = __floordiv__

    def __repr__(self):
        return f"SymFloat({self.e})"

    def __str__(self):
        raise EngineLimit("str() of a symbolic float")

    def __format__(self, spec):
        raise EngineLimit("format() of a symbolic float")


# -------------------------------------------------------- helpers for harnesses
def sym_if(cond, a, b):
    """If-term over ints (no forking)."""
    c = _boolterm(cond)
    ta, tb = _num(a), _num(b)
    if ta[1] == "i" and tb[1] == "i":
        return SymInt(z3.If(c, ta[0], tb[0]))
    return SymFloat(z3.If(c, _real(*ta), _real(*tb)))


def sym_and(*xs):
    return SymBool(z3.And(*[_boolterm(x) for x in xs]))


def sym_or(*xs):
    return SymBool(z3.Or(*[_boolterm(x) for x in xs]))


def sym_not(x):
    return SymBool(z3.Not(_boolterm(x)))


def sym_implies(a, b):
    return SymBool(z3.Implies(_boolterm(a), _boolterm(b)))


def term(x):
    """z3 term of a numeric value (symbolic or concrete)."""
    n = _num(x)
    if n is None:
        raise EngineLimit(f"not numeric: {type(x).__name__}")
    return n[0]


def rterm(x):
    n = _num(x)
    if n is None:
        raise EngineLimit(f"not numeric: {type(x).__name__}")
    return _real(*n)
