"""Term strings: str/bytes values with symbolic pieces (DESIGN.md 2.2.1).

A TStr is a sequence of parts
  Lit(text) | Dec(int term) | Rep(TStr, count term) | Opq(name, start, length, src)
``Opq`` is an opaque payload (compressed / encoded bytes, base64 text): its
characters are assumed to be free of control characters; ``start``/``length``
are integer terms so that slices of one payload (chunks, strips) are related.
"""
from __future__ import annotations

import re

import z3

from . import core
from .core import EngineLimit, SymBool, SymInt, Sym, eng, lift, term

_FMT = re.compile(r"%(?:(?P<flags>[-+ #0]*)(?P<width>\d+)?(?:\.(?P<prec>\d+))?(?P<conv>[dsrcxXi%]))")


class Part:
    __slots__ = ()


class Lit(Part):
    __slots__ = ("t",)

    def __init__(self, t):
        self.t = t

    def __repr__(self):
        return f"Lit({self.t!r})"


class Dec(Part):
    """Decimal rendering of an integer term."""

    __slots__ = ("v",)

    def __init__(self, v):
        self.v = v  # z3 Int

    def __repr__(self):
        return f"Dec({self.v})"


class Rep(Part):
    __slots__ = ("body", "n")

    def __init__(self, body, n):
        self.body, self.n = body, n  # TStr, z3 Int

    def __repr__(self):
        return f"Rep({self.body!r}, {self.n})"


class Opq(Part):
    """Opaque payload slice ``name[start : start+length]``.

    ``meta`` describes how the payload was produced (e.g. ('b64', src_parts),
    ('zlib', src_parts, level), ('raw', w, h, bpp)) so that claims can relate it
    to the image."""

    __slots__ = ("name", "start", "length", "meta")

    def __init__(self, name, start, length, meta=None):
        self.name, self.start, self.length, self.meta = name, start, length, meta

    def __repr__(self):
        return f"Opq({self.name}[{z3.simplify(self.start)}:+{z3.simplify(self.length)}])"


def _iv(x):
    return x if isinstance(x, z3.ExprRef) else z3.IntVal(int(x))


def _parts(x, conv="s"):
    """Parts of the str() of x."""
    if isinstance(x, TStr):
        return list(x.parts)
    t = type(x)
    if t is str:
        return [Lit(x)] if x else []
    if t is bytes or t is bytearray:
        return [Lit(bytes(x).decode("utf-8", "surrogateescape"))] if x else []
    if isinstance(x, SymInt):
        if z3.is_int_value(x.e):
            return [Lit(str(x.e.as_long()))]
        return [Dec(x.e)]
    if isinstance(x, SymBool):
        if conv == "d":
            return _parts(x._int(), "d")
        raise EngineLimit("str() of a symbolic bool")
    if isinstance(x, Sym):
        raise EngineLimit(f"str() of {type(x).__name__}")
    if t.__name__ == "CStr":
        return [Lit("<symbolic characters>")]  # only occurs in messages
    if t is bool and conv == "d":
        return [Lit(str(int(x)))]
    if conv == "r":
        return [Lit(repr(x))]
    return [Lit(str(x))] if str(x) else []


def has_sym(x):
    """Does formatting x need the engine?"""
    if isinstance(x, (TStr, Sym)) or type(x).__name__ == "CStr":
        return True
    if isinstance(x, (tuple, list)):
        return any(has_sym(i) for i in x)
    if type(x) is dict:
        return any(has_sym(i) for i in x.values())
    return False


def _norm(parts):
    out = []
    for p in parts:
        if isinstance(p, Lit):
            if not p.t:
                continue
            if out and isinstance(out[-1], Lit):
                out[-1] = Lit(out[-1].t + p.t)
                continue
        elif isinstance(p, Rep):
            n = z3.simplify(p.n) if isinstance(p.n, z3.ExprRef) else _iv(p.n)
            if z3.is_int_value(n):
                k = n.as_long()
                if k <= 0:
                    continue
                if k * max(1, len(p.body.parts)) <= 4096:
                    for _ in range(k):
                        for q in p.body.parts:
                            if isinstance(q, Lit) and out and isinstance(out[-1], Lit):
                                out[-1] = Lit(out[-1].t + q.t)
                            else:
                                out.append(q)
                    continue
            if not p.body.parts:
                continue
            p = Rep(p.body, n)
        elif isinstance(p, Opq):
            ln = z3.simplify(p.length)
            if z3.is_int_value(ln) and ln.as_long() <= 0:
                continue
        out.append(p)
    return out


class TStr:
    """A symbolic str (or bytes when ``b`` is true)."""

    __slots__ = ("parts", "b")

    def __init__(self, parts=(), b=False):
        self.parts = _norm(parts)
        self.b = b

    __class__ = property(lambda s: bytes if s.b else str)

    def __deepcopy__(self, memo):
        return self

    def __copy__(self):
        return self

    # -------------------------------------------------------------- building
    def __add__(self, o):
        if not isinstance(o, (TStr, str, bytes, bytearray)):
            return NotImplemented
        return TStr(self.parts + _parts(o), self.b)

    def __radd__(self, o):
        if not isinstance(o, (TStr, str, bytes, bytearray)):
            return NotImplemented
        return TStr(_parts(o) + self.parts, self.b)

    def __mul__(self, n):
        if isinstance(n, SymBool):
            n = n._int()
        if isinstance(n, SymInt):
            return TStr([Rep(self, z3.If(n.e > 0, n.e, 0))], self.b)
        if isinstance(n, int):
            return TStr([Rep(self, _iv(max(int(n), 0)))], self.b)
        return NotImplemented

    __rmul__ = __mul__

    def __mod__(self, args):
        return fmt_mod(self, args)

    def __bool__(self):
        return bool(self.nonempty())

    def nonempty(self):
        conds = []
        for p in self.parts:
            if isinstance(p, (Lit, Dec)):
                return True
            if isinstance(p, Opq):
                conds.append(p.length > 0)
            elif isinstance(p, Rep):
                ne = p.body.nonempty()
                conds.append(z3.And(p.n > 0, core._boolterm(ne)))
        if not conds:
            return False
        return SymBool(z3.Or(*conds))

    def sym_len(self):
        """Length as an integer term (EngineLimit if it contains a decimal rendering)."""
        total = z3.IntVal(0)
        for p in self.parts:
            if isinstance(p, Lit):
                total = total + len(p.t.encode() if self.b else p.t)
            elif isinstance(p, Opq):
                total = total + p.length
            elif isinstance(p, Rep):
                total = total + p.n * p.body.sym_len().e
            else:
                raise EngineLimit("len() of a string containing a symbolic decimal")
        return SymInt(z3.simplify(total))

    def __len__(self):
        return eng().concretize(self.sym_len().e)

    def __eq__(self, o):
        if isinstance(o, (str, bytes)):
            if not o:
                ne = self.nonempty()
                return (not ne) if isinstance(ne, bool) else core.sym_not(ne)
            if all(isinstance(p, Lit) for p in self.parts):
                return "".join(p.t for p in self.parts) == (o.decode("utf-8", "surrogateescape") if isinstance(o, bytes) else o)
            raise EngineLimit("== between a symbolic string and a non-empty literal")
        if isinstance(o, TStr):
            if o is self:
                return True
            raise EngineLimit("== between symbolic strings")
        return False

    def __ne__(self, o):
        r = self.__eq__(o)
        return (not r) if isinstance(r, bool) else core.sym_not(r)

    def __hash__(self):
        raise EngineLimit("hash of a symbolic string")

    def __iter__(self):
        raise EngineLimit("iteration over a symbolic string")

    # -- slicing: only at positions that are provably inside literal text at either end
    def _blen(self, text):
        return len(text.encode()) if self.b else len(text)

    def _cut_left(self, k):
        """parts after dropping the first k characters (k must fall inside leading literals)"""
        parts = list(self.parts)
        while k > 0:
            if not parts or not isinstance(parts[0], Lit):
                raise EngineLimit("slice start inside a symbolic part")
            t = parts[0].t
            if self.b and not t[: min(k, len(t))].isascii():
                raise EngineLimit("slice inside non-ASCII text of a byte string")
            if len(t) <= k:
                k -= len(t)
                parts.pop(0)
            else:
                parts[0] = Lit(t[k:])
                k = 0
        return parts

    def _cut_right(self, parts, k):
        parts = list(parts)
        while k > 0:
            if not parts or not isinstance(parts[-1], Lit):
                raise EngineLimit("slice end inside a symbolic part")
            t = parts[-1].t
            if self.b and not t[-min(k, len(t)) :].isascii():
                raise EngineLimit("slice inside non-ASCII text of a byte string")
            if len(t) <= k:
                k -= len(t)
                parts.pop()
            else:
                parts[-1] = Lit(t[:-k])
                k = 0
        return parts

    def __getitem__(self, i):
        if not isinstance(i, slice) or i.step not in (None, 1):
            raise EngineLimit("indexing a symbolic string")
        start, stop = i.start, i.stop
        if isinstance(stop, TPos):
            if stop.s is not self or start not in (None, 0):
                raise EngineLimit("foreign string position")
            parts = self.parts[: stop.part] + ([Lit(self.parts[stop.part].t[: stop.off])] if stop.off else [])
            return TStr(parts, self.b)
        if isinstance(start, TPos):
            if start.s is not self or stop is not None:
                raise EngineLimit("foreign string position")
            p = self.parts[start.part]
            return TStr(([Lit(p.t[start.off :])] if isinstance(p, Lit) else [p]) + self.parts[start.part + 1 :], self.b)
        if isinstance(start, Sym) or isinstance(stop, Sym):
            raise EngineLimit("symbolic slice bounds on a symbolic string")
        if (start is not None and start < 0) or (stop is not None and stop >= 0):
            raise EngineLimit("unsupported slice shape on a symbolic string")
        parts = self._cut_left(start or 0)
        if stop is not None:
            parts = self._cut_right(parts, -stop)
        return TStr(parts, self.b)

    def _find(self, sub, last):
        sub = self._cs(sub)
        if not isinstance(sub, str) or len(sub) != 1 or sub.isdigit():
            raise EngineLimit("index()/rindex() of a multi-character or digit pattern")
        order = range(len(self.parts) - 1, -1, -1) if last else range(len(self.parts))
        for k in order:
            p = self.parts[k]
            if isinstance(p, Lit):
                j = p.t.rfind(sub) if last else p.t.find(sub)
                if j >= 0:
                    return TPos(self, k, j)
            elif isinstance(p, Rep):
                raise EngineLimit("index()/rindex() across a repetition")
        raise ValueError("subsection not found")

    def rindex(self, sub):
        return self._find(sub, True)

    def index(self, sub):
        return self._find(sub, False)

    def __contains__(self, x):
        if isinstance(x, (str, bytes)) and len(x) == 1:
            return bool(self.count(x) > 0)
        raise EngineLimit("substring test on a symbolic string")

    # ------------------------------------------------------------ str methods
    def encode(self, *a, **k):
        return TStr(self.parts, True)

    def decode(self, *a, **k):
        return TStr(self.parts, False)

    def _cs(self, x):
        if isinstance(x, TStr):
            return x
        if isinstance(x, (bytes, bytearray)):
            return x.decode("utf-8", "surrogateescape")
        return x

    def replace(self, old, new, count=-1):
        old = self._cs(old)
        if count != -1 or not isinstance(old, str) or len(old) != 1 or old.isalnum() or old in "+/=-":
            raise EngineLimit(f"replace({old!r}) on a symbolic string")
        newp = _parts(new)

        def rep(ts):
            out = []
            for p in ts.parts:
                if isinstance(p, Lit):
                    pieces = p.t.split(old)
                    for i, pc in enumerate(pieces):
                        if i:
                            out.extend(newp)
                        if pc:
                            out.append(Lit(pc))
                elif isinstance(p, Rep):
                    out.append(Rep(rep(p.body), p.n))
                else:
                    out.append(p)
            return TStr(out, ts.b)

        return rep(self)

    def count(self, sub):
        sub = self._cs(sub)
        if not isinstance(sub, str) or len(sub) != 1 or sub.isalnum() or sub in "+/=-":
            raise EngineLimit(f"count({sub!r}) on a symbolic string")
        total = z3.IntVal(0)
        for p in self.parts:
            if isinstance(p, Lit):
                total = total + p.t.count(sub)
            elif isinstance(p, Rep):
                total = total + p.n * term(p.body.count(sub))
        total = z3.simplify(total)
        return total.as_long() if z3.is_int_value(total) else SymInt(total)

    def split(self, sep=None, maxsplit=-1):
        sep = self._cs(sep)
        if maxsplit != -1 or not isinstance(sep, str) or len(sep) != 1 or sep.isalnum():
            raise EngineLimit(f"split({sep!r}) on a symbolic string")
        out, cur = [], []
        for p in self.parts:
            if isinstance(p, Lit):
                pieces = p.t.split(sep)
                for i, pc in enumerate(pieces):
                    if i:
                        out.append(TStr(cur, self.b))
                        cur = []
                    if pc:
                        cur.append(Lit(pc))
            elif isinstance(p, Rep):
                c = p.body.count(sep)
                if not (isinstance(c, int) and c == 0):
                    raise EngineLimit("split inside a symbolic repetition")
                cur.append(p)
            else:
                cur.append(p)
        out.append(TStr(cur, self.b))
        return out

    def _first_lit(self):
        return self.parts[0].t if self.parts and isinstance(self.parts[0], Lit) else None

    def startswith(self, prefix):
        prefix = self._cs(prefix)
        f = self._first_lit()
        if isinstance(prefix, str):
            if not prefix:
                return True
            if f is not None and len(f) >= len(prefix):
                return f.startswith(prefix)
            if f is not None and not prefix.startswith(f):
                return False
            if not self.parts:
                return False
        raise EngineLimit("startswith on a symbolic string")

    def endswith(self, suffix):
        suffix = self._cs(suffix)
        last = self.parts[-1] if self.parts else None
        if isinstance(suffix, str):
            if not suffix:
                return True
            if last is None:
                return False
            if isinstance(last, Lit):
                if len(last.t) >= len(suffix):
                    return last.t.endswith(suffix)
                if not suffix.endswith(last.t):
                    return False
        raise EngineLimit("endswith on a symbolic string")

    def lower(self):
        if all(isinstance(p, Lit) for p in self.parts):
            return TStr([Lit(p.t.lower()) for p in self.parts], self.b)
        raise EngineLimit("lower() on a symbolic string")

    def join(self, items):
        return sx_join(self, items)

    # ------------------------------------------------------------- inspection
    def is_concrete(self):
        return all(isinstance(p, Lit) for p in self.parts)

    def concrete(self):
        s = "".join(p.t for p in self.parts)
        return s.encode("utf-8", "surrogateescape") if self.b else s

    def sx_eval(self, m):
        """Concrete string under a model (payload bytes become 'A')."""
        out = []
        for p in self.parts:
            if isinstance(p, Lit):
                out.append(p.t)
            elif isinstance(p, Dec):
                out.append(str(m.eval(p.v, model_completion=True).as_long()))
            elif isinstance(p, Opq):
                out.append("A" * max(0, m.eval(p.length, model_completion=True).as_long()))
            elif isinstance(p, Rep):
                out.append(p.body.sx_eval(m) * max(0, m.eval(p.n, model_completion=True).as_long()))
        return "".join(out)

    def __repr__(self):
        return ("TBytes(" if self.b else "TStr(") + ", ".join(map(repr, self.parts)) + ")"

    def __str__(self):
        if self.is_concrete():
            return self.concrete() if not self.b else repr(self.concrete())
        raise EngineLimit("str() of a symbolic string (unlifted code path)")

    def __format__(self, spec):
        raise EngineLimit("format() of a symbolic string (unlifted code path)")


def maybe_concrete(ts):
    """Return a plain str/bytes when nothing symbolic is left."""
    if isinstance(ts, TStr) and ts.is_concrete():
        return ts.concrete()
    return ts


def T(x, b=False):
    return TStr(_parts(x), b)


def fmt_mod(template, args):
    """``template % args`` for printf-style templates with symbolic arguments."""
    b = isinstance(template, (bytes, bytearray)) or (isinstance(template, TStr) and template.b)
    tparts = _parts(template)
    if not isinstance(args, tuple) or isinstance(args, core.Sym):
        args = (args,)
    if type(args) is not tuple:  # NamedTuple etc.
        args = tuple(args)
    args = list(args)
    out = []
    for p in tparts:
        if not isinstance(p, Lit):
            out.append(p)
            continue
        pos = 0
        for mo in _FMT.finditer(p.t):
            if mo.start() > pos:
                out.append(Lit(p.t[pos : mo.start()]))
            pos = mo.end()
            conv = mo.group("conv")
            if conv == "%":
                out.append(Lit("%"))
                continue
            if not args:
                raise TypeError("not enough arguments for format string")
            a = args.pop(0)
            if has_sym(a):
                if mo.group("flags") or mo.group("width") or mo.group("prec"):
                    raise EngineLimit("format flags with a symbolic argument")
                if conv in ("d", "i"):
                    out.extend(_parts(a, "d"))
                elif conv in ("s", "r"):
                    if isinstance(a, (tuple, list)):
                        raise EngineLimit("%s of a container with symbolic items")
                    out.extend(_parts(a))
                else:
                    raise EngineLimit(f"%{conv} with a symbolic argument")
            else:
                piece = (("%" + mo.group(0)[1:]).encode() % (a,)).decode("utf-8", "surrogateescape") if b else ("%" + mo.group(0)[1:]) % (a,)
                out.append(Lit(piece))
        if pos < len(p.t):
            rest = p.t[pos:]
            if "%" in rest:
                raise ValueError("incomplete format")
            out.append(Lit(rest))
    if args:
        raise TypeError("not all arguments converted during string formatting")
    return TStr(out, b)


def sx_join(sep, items):
    items = list(items)
    b = isinstance(sep, (bytes, bytearray)) or (isinstance(sep, TStr) and sep.b)
    out = []
    sp = _parts(sep)
    for i, it in enumerate(items):
        if not isinstance(it, (str, bytes, bytearray, TStr)):
            raise TypeError(f"sequence item {i}: expected str instance, {type(it).__name__} found")
        if i:
            out.extend(sp)
        out.extend(_parts(it))
    return TStr(out, b)


def sx_fstr(*items):
    """f-string: items are str constants or (value, conversion, spec) triples."""
    out = []
    for it in items:
        if type(it) is tuple:
            v, conv, spec = it
            if has_sym(v) or has_sym(spec):
                if isinstance(v, (tuple, list, dict)):
                    out.append(Lit("<symbolic container>"))  # only occurs in messages
                    continue
                if spec not in (None, "", "d"):
                    raise EngineLimit(f"f-string spec {spec!r} with a symbolic value")
                if conv == ord("r") and isinstance(v, TStr):
                    out.append(Lit("'"))
                    out.extend(_parts(v))
                    out.append(Lit("'"))
                else:
                    out.extend(_parts(v, "d" if spec == "d" else "s"))
            else:
                if conv == ord("r"):
                    v = repr(v)
                elif conv == ord("s"):
                    v = str(v)
                elif conv == ord("a"):
                    v = ascii(v)
                out.append(Lit(format(v, spec or "")))
        else:
            out.append(Lit(it))
    return maybe_concrete(TStr(out))


class TPos:
    """A position inside a TStr (result of index()/rindex()): part number + offset in that literal."""

    __slots__ = ("s", "part", "off")

    def __init__(self, s, part, off):
        self.s, self.part, self.off = s, part, off

    def __add__(self, k):
        if type(k) is not int or k < 0:
            raise EngineLimit("arithmetic on a string position")
        p = self.s.parts[self.part]
        if self.off + k > len(p.t):
            raise EngineLimit("string position moved out of its literal")
        return TPos(self.s, self.part, self.off + k)


class SymPos:
    """Result of tell() on a text buffer whose length is not a term (it contains
    decimal renderings): only ``tell() - k`` followed by ``seek`` is supported."""

    def __init__(self, buf, back=0):
        self.buf, self.back = buf, back

    def __sub__(self, k):
        if type(k) is int and k >= 0:
            return SymPos(self.buf, self.back + k)
        raise EngineLimit("arithmetic on a symbolic stream position")


class SxIO:
    """StringIO / BytesIO replacement that stores parts.

    Reading is supported over an initial value; writing appends, or overwrites
    from an explicit seek position (positions are integer terms)."""

    def __init__(self, initial=None, b=False):
        self.b = b
        self.parts = _parts(initial) if initial is not None else []
        self.pos = 0 if initial is not None else None  # None = at end
        self.closed = False
        self.back = 0  # pending "seek(tell() - k)"

    # -- helpers
    def _content(self):
        return TStr(self.parts, self.b)

    def _length(self):
        return self._content().sym_len().e

    def _slice(self, start, stop):
        """parts of content[start:stop] (integer terms, 0 <= start <= stop <= len)."""
        out = []
        off = z3.IntVal(0)
        E = eng()
        for p in _norm(self.parts):
            if isinstance(p, Lit):
                ln = _iv(len(p.t))
            elif isinstance(p, Opq):
                ln = p.length
            else:
                raise EngineLimit("slicing a buffer holding repetitions/decimals")
            lo = z3.simplify(z3.If(start > off, start, off))
            hi = z3.simplify(z3.If(stop < off + ln, stop, off + ln))
            take = z3.simplify(z3.If(hi > lo, hi - lo, 0))
            if isinstance(p, Lit):
                if z3.is_int_value(lo) and z3.is_int_value(take) and z3.is_int_value(off):
                    a = lo.as_long() - off.as_long()
                    out.append(Lit(p.t[a : a + take.as_long()]))
                else:
                    a = E.concretize(z3.simplify(lo - off), limit=len(p.t) + 2)
                    k = E.concretize(take, limit=len(p.t) + 2)
                    out.append(Lit(p.t[max(a, 0) : max(a, 0) + k]))
            elif E.possible(take > 0):  # pieces that are empty on this path are dropped
                out.append(Opq(p.name, z3.simplify(p.start + (lo - off)), take, p.meta))
            off = z3.simplify(off + ln)
        return out

    # -- file API
    def write(self, x):
        if self.closed:
            raise ValueError("I/O operation on closed file.")
        xp = _parts(x)
        if self.back:
            k = self.back
            self.back = 0
            last = self.parts[-1] if self.parts else None
            if not (isinstance(last, Lit) and len(last.t) >= k):
                raise EngineLimit("seek back over non-literal text")
            first = xp[0] if xp else None
            if not (isinstance(first, Lit) and len(first.t) >= k) and xp:
                raise EngineLimit("overwrite shorter than the seek-back distance")
            if xp:
                self.parts[-1] = Lit(last.t[:-k])
                self.parts.extend(xp)
            return 0
        if self.pos is None:
            self.parts.extend(xp)
            return 0
        # overwrite at pos
        xl = TStr(xp, self.b).sym_len().e
        total = self._length()
        pos = self.pos
        head = self._slice(z3.IntVal(0), pos)
        tail_start = z3.simplify(z3.If(pos + xl < total, pos + xl, total))
        tail = self._slice(tail_start, total)
        self.parts = _norm(head + xp + tail)
        self.pos = z3.simplify(pos + xl)
        return 0

    def getvalue(self):
        if self.closed:
            raise ValueError("I/O operation on closed file.")
        if self.back:
            raise EngineLimit("getvalue with a pending seek-back")
        return maybe_concrete(self._content())

    def getbuffer(self):
        return self.getvalue()

    def tell(self):
        if self.pos is None:
            try:
                return SymInt(self._length())
            except EngineLimit:
                return SymPos(self)
        return SymInt(self.pos)

    def seek(self, off, whence=0):
        self.back = 0
        if isinstance(off, SymPos):
            if off.buf is not self or whence != 0:
                raise EngineLimit("foreign stream position")
            self.pos = None
            self.back = off.back
            return off
        if whence == 2:
            if not (type(off) is int and off == 0):
                raise EngineLimit("seek relative to end")
            self.pos = None
            return self.tell()
        if whence != 0:
            raise EngineLimit("seek whence")
        try:
            d = z3.simplify(self._length() - term(off))
        except EngineLimit:
            d = None
        if d is not None and z3.is_int_value(d) and 0 <= d.as_long() <= 8:
            # a position a few characters before the end: keep appending semantics
            self.pos = None
            self.back = d.as_long()
            return off
        self.pos = z3.simplify(term(off))
        return off

    def truncate(self, size=None):
        if size is not None:
            raise EngineLimit("truncate(size)")
        if self.pos is None:
            return
        self.parts = _norm(self._slice(z3.IntVal(0), self.pos))
        return SymInt(self.pos)

    def read(self, n=-1):
        if self.pos is None:
            return b"" if self.b else ""
        total = self._length()
        pos = self.pos
        if n is None or (type(n) is int and n < 0):
            stop = total
        else:
            nn = term(n)
            stop = z3.simplify(z3.If(pos + nn < total, pos + nn, total))
        out = self._slice(pos, stop)
        self.pos = stop
        return maybe_concrete(TStr(out, self.b))

    def close(self):
        self.closed = True

    def flush(self):
        pass

    def __enter__(self):
        if self.closed:
            raise ValueError("I/O operation on closed file.")
        return self

    def __exit__(self, *a):
        self.close()
        return False


def StringIO(initial=None, newline=None):
    return SxIO(initial, False)


def BytesIO(initial=None):
    return SxIO(initial, True)
