"""Loading the real code: "lifting" (DESIGN.md 2.1).

An import hook recompiles every ``term_image.*`` module from the *current*
source files of the repository with a purely syntactic rewrite:

  f"..."                 -> _sx_fstr(parts...)
  a % b                  -> _sx_mod(a, b)
  len/int/float/str/repr/hash/range/print/min/max/format(...) calls
                         -> _sx_<name>(...)
  obj.<strmethod>(...)   -> _sx_meth(obj, "<strmethod>", ...)   (join, replace, ...)
  io.StringIO/BytesIO    -> through __sx_meth as well

Every shim falls back to the ordinary Python behaviour when no symbolic value
is involved, so lifted modules behave exactly like the originals on concrete
inputs (validated by running the repository's own tests on lifted modules).
"""
from __future__ import annotations

import ast
import builtins
import importlib.abc
import importlib.machinery
import io as _io
import os
import sys

import z3

from . import core, tstr
from .core import EngineLimit, Sym, SymBool, SymFloat, SymInt
from .tstr import TStr, has_sym

BUILTIN_CALLS = {"len", "int", "float", "str", "repr", "hash", "range", "print", "min", "max", "format", "bytes", "bytearray"}
STR_METHODS = {
    "join", "replace", "split", "count", "startswith", "endswith", "encode", "decode",
    "lower", "upper", "lstrip", "rstrip", "strip", "partition", "rpartition",
    "StringIO", "BytesIO", "splitlines", "format", "index", "rindex", "find",
}


def _active():
    return core.ENG is not None


# ----------------------------------------------------------------------- shims
def sx_fstr(*items):
    if not _active() and not any(type(it) is tuple and has_sym(it[0]) for it in items):
        out = []
        for it in items:
            if type(it) is tuple:
                v, conv, spec = it
                if conv == 114:
                    v = repr(v)
                elif conv == 115:
                    v = str(v)
                elif conv == 97:
                    v = ascii(v)
                out.append(format(v, spec or ""))
            else:
                out.append(it)
        return "".join(out)
    return tstr.sx_fstr(*items)


def sx_mod(a, b):
    if isinstance(a, (str, bytes)) and has_sym(b):
        return tstr.fmt_mod(a, b)
    return a % b


def sx_len(x):
    if isinstance(x, TStr):
        return x.sym_len()
    if isinstance(x, tstr.SxIO):
        raise EngineLimit("len of a buffer")
    return len(x)


def sx_int(x=0, *a):
    if type(x).__name__ == "CStr":
        return x.to_int(*a) if _active() else int(x.concretize(), *a)
    if isinstance(x, SymInt):
        return x
    if isinstance(x, SymBool):
        return x._int()
    if isinstance(x, SymFloat):
        return x.__trunc__()
    if isinstance(x, TStr):
        raise EngineLimit(f"int() of {type(x).__name__}")
    return int(x, *a)


def sx_float(x=0.0):
    if type(x).__name__ == "CStr":
        return x.to_float()
    if isinstance(x, SymFloat):
        return x
    if isinstance(x, SymInt):
        return SymFloat(z3.ToReal(x.e))  # exact for |x| < 2**53 (stated magnitude bound)
    if isinstance(x, (SymBool, TStr)):
        raise EngineLimit(f"float() of {type(x).__name__}")
    return float(x)


def sx_str(x="", *a):
    if isinstance(x, TStr):
        return x.decode() if a else x
    if isinstance(x, Sym):
        return TStr(tstr._parts(x))
    return str(x, *a)


def sx_repr(x):
    if isinstance(x, TStr):
        return TStr([tstr.Lit("'")] + x.parts + [tstr.Lit("'")])
    if isinstance(x, Sym):
        return TStr(tstr._parts(x))
    if has_sym(x):
        return "<symbolic container>"
    return repr(x)


_HASH = z3.Function("py_hash", z3.IntSort(), z3.IntSort(), z3.IntSort())


_HINT = z3.Function("py_hash_int", z3.IntSort(), z3.IntSort())
_HCOMB = z3.Function("py_hash_combine", z3.IntSort(), z3.IntSort(), z3.IntSort())


def _hash_term(x):
    """hash of x as a z3 Int term (uninterpreted functions over structure), or a Python int
    when nothing symbolic is involved"""
    if isinstance(x, SymInt):
        e = z3.simplify(x.e)
        return hash(e.as_long()) if z3.is_int_value(e) else _HINT(e)
    if isinstance(x, SymBool):
        return _hash_term(x._int())
    if isinstance(x, Sym):
        raise EngineLimit("hash of a symbolic float")
    if isinstance(x, tuple):
        items = [_hash_term(i) for i in x]
        if all(type(i) is int for i in items):
            return hash(x)
        acc = z3.IntVal(len(x))
        for it in items:
            acc = _HCOMB(acc, it if isinstance(it, z3.ExprRef) else z3.IntVal(it))
        return acc
    h = getattr(type(x), "__hash__", None)
    mod = getattr(h, "__module__", "") or ""
    if h is not None and mod.startswith("term_image"):
        r = h(x)  # a lifted __hash__: may return a symbolic int
        return r.e if isinstance(r, SymInt) else r
    return hash(x)


def sx_hash(x):
    if not _active():
        return hash(x)
    if isinstance(x, tuple) and len(x) == 2 and all(core._num(i) is not None for i in x):
        # hash of a size tuple: an uninterpreted function, injective on the pairs hashed on this path
        # (assumption recorded by the harnesses that rely on it)
        E = core.eng()
        a, b = core.term(x[0]), core.term(x[1])
        apps = E.fl_cache.setdefault("hash_apps", [])
        for c, d in apps:
            E._add(z3.Implies(_HASH(a, b) == _HASH(c, d), z3.And(a == c, b == d)))
        apps.append((a, b))
        return SymInt(_HASH(a, b))
    t = _hash_term(x)
    return SymInt(t) if isinstance(t, z3.ExprRef) else t


def sx_range(*args):
    if any(isinstance(a, Sym) for a in args):
        E = core.eng()
        args = [E.concretize(core.term(a)) if isinstance(a, Sym) else a for a in args]
    return range(*args)


def sx_print(*args, sep=" ", end="\n", file=None, flush=False):
    if not _active() and not any(has_sym(a) for a in args):
        return print(*args, sep=sep, end=end, file=file, flush=flush)
    # same sequence of write() calls as the builtin: every argument, the separator between
    # arguments (even when empty), then the end string, then flush
    out = file if file is not None else sys.stdout
    if sep is None:
        sep = " "
    if end is None:
        end = "\n"
    for i, a in enumerate(args):
        if i:
            out.write(sep)
        out.write(a if isinstance(a, (str, TStr)) else tstr.maybe_concrete(TStr(tstr._parts(a))))
    out.write(end)
    if flush:
        out.flush()


def _minmax(args, kw, ismax, builtin):
    if kw or len(args) < 2 or not any(isinstance(a, Sym) for a in args):
        return builtin(*args, **kw)
    if any(core._num(a) is None for a in args):
        return builtin(*args, **kw)
    res = args[0]
    for a in args[1:]:
        ta, tb = core._num(res), core._num(a)
        if ta[1] == "i" and tb[1] == "i":
            c = (tb[0] > ta[0]) if ismax else (tb[0] < ta[0])
            res = SymInt(z3.simplify(z3.If(c, tb[0], ta[0])))
        else:
            ra, rb = core._real(*ta), core._real(*tb)
            c = (rb > ra) if ismax else (rb < ra)
            res = SymFloat(z3.simplify(z3.If(c, rb, ra)))
    return res


def sx_min(*args, **kw):
    return _minmax(args, kw, False, min)


def sx_max(*args, **kw):
    return _minmax(args, kw, True, max)


def sx_format(v, spec=""):
    if has_sym(v):
        if spec in ("", "d"):
            return TStr(tstr._parts(v, "d"))
        raise EngineLimit("format() with a spec on a symbolic value")
    return format(v, spec)


def sx_bytes(*a, **k):
    if a and isinstance(a[0], TStr):
        return a[0].encode()
    if a and type(a[0]).__name__ == "CStr":
        return a[0]
    return bytes(*a, **k)


def sx_bytearray(*a, **k):
    if _active() and not a:
        from .rx import CStr

        return CStr([])  # a growable string of (possibly symbolic) byte values
    return bytearray(*a, **k)


def sx_meth(obj, name, *args, **kw):
    if obj is _io and name in ("StringIO", "BytesIO"):
        if _active():
            return tstr.SxIO(args[0] if args else None, name == "BytesIO")
        return getattr(_io, name)(*args, **kw)
    if isinstance(obj, TStr):
        return getattr(obj, name)(*args, **kw)
    if type(obj) in (str, bytes):
        if name == "join" and args and isinstance(args[0], TStr):
            if obj:
                raise EngineLimit("join of the characters of a symbolic string with a separator")
            return args[0]  # "".join(s) == s
        if name == "join" and args:
            items = args[0] if isinstance(args[0], (list, tuple)) else list(args[0])
            if any(isinstance(i, TStr) for i in items):
                return tstr.maybe_concrete(tstr.sx_join(obj, items))
            return obj.join(items)
        if any(has_sym(a) for a in args):
            return getattr(tstr.T(obj, type(obj) is bytes), name)(*args, **kw)
    return getattr(obj, name)(*args, **kw)


SX_GLOBALS = {
    "_sx_fstr": sx_fstr,
    "_sx_mod": sx_mod,
    "_sx_len": sx_len,
    "_sx_int": sx_int,
    "_sx_float": sx_float,
    "_sx_str": sx_str,
    "_sx_repr": sx_repr,
    "_sx_hash": sx_hash,
    "_sx_range": sx_range,
    "_sx_print": sx_print,
    "_sx_min": sx_min,
    "_sx_max": sx_max,
    "_sx_format": sx_format,
    "_sx_bytes": sx_bytes,
    "_sx_bytearray": sx_bytearray,
    "_sx_meth": sx_meth,
}


# ----------------------------------------------------------------- transformer
class Lifter(ast.NodeTransformer):
    def __init__(self):
        self.count = 0

    def _name(self, n):
        return ast.Name("_sx_" + n, ast.Load())

    def visit_JoinedStr(self, node):
        self.generic_visit(node)
        elts = []
        for v in node.values:
            if isinstance(v, ast.Constant):
                elts.append(v)
            else:  # FormattedValue
                spec = v.format_spec if v.format_spec is not None else ast.Constant(None)
                elts.append(ast.Tuple([v.value, ast.Constant(v.conversion), spec], ast.Load()))
        self.count += 1
        return ast.copy_location(ast.Call(self._name("fstr"), elts, []), node)

    def visit_FormattedValue(self, node):
        # only reached for nested format specs (already JoinedStr) -- leave
        self.generic_visit(node)
        return node

    def visit_BinOp(self, node):
        self.generic_visit(node)
        if isinstance(node.op, ast.Mod):
            self.count += 1
            return ast.copy_location(ast.Call(self._name("mod"), [node.left, node.right], []), node)
        return node

    def visit_Call(self, node):
        self.generic_visit(node)
        f = node.func
        if isinstance(f, ast.Name) and f.id == "map" and node.args and isinstance(node.args[0], ast.Name) and node.args[0].id == "int":
            # map(int, xs): the conversion must go through the int shim as well
            self.count += 1
            node.args[0] = ast.copy_location(self._name("int"), node.args[0])
            return node
        if isinstance(f, ast.Name) and f.id in BUILTIN_CALLS:
            self.count += 1
            node.func = ast.copy_location(self._name(f.id), f)
            return node
        if isinstance(f, ast.Attribute) and f.attr in STR_METHODS and not (
            isinstance(f.value, ast.Call) and isinstance(f.value.func, ast.Name) and f.value.func.id == "super"
        ):
            self.count += 1
            return ast.copy_location(
                ast.Call(self._name("meth"), [f.value, ast.Constant(f.attr)] + node.args, node.keywords), node
            )
        return node


def lift_source(data, path):
    tree = ast.parse(data, path)
    lf = Lifter()
    tree = lf.visit(tree)
    ast.fix_missing_locations(tree)
    return compile(tree, path, "exec", dont_inherit=True), lf.count


LIFTED = {}  # module name -> (path, rewrites)


class LiftLoader(importlib.machinery.SourceFileLoader):
    def get_code(self, fullname):
        path = self.get_filename(fullname)
        data = self.get_data(path)
        code, n = lift_source(data, path)
        LIFTED[fullname] = (path, n)
        return code

    def exec_module(self, module):
        module.__dict__.update(SX_GLOBALS)
        super().exec_module(module)


class LiftFinder(importlib.abc.MetaPathFinder):
    def __init__(self, src_dir):
        self.src_dir = src_dir

    def find_spec(self, fullname, path, target=None):
        if fullname != "term_image" and not fullname.startswith("term_image."):
            return None
        search = [self.src_dir] if path is None else path
        spec = importlib.machinery.PathFinder.find_spec(fullname, search)
        if spec is None or not isinstance(spec.loader, importlib.machinery.SourceFileLoader):
            return spec
        spec.loader = LiftLoader(spec.loader.name, spec.loader.path)
        return spec


def repo_root():
    return os.environ.get("TERM_IMAGE_REPO", "/repo")


def install(lift=True, eager_image=True):
    """Make ``import term_image`` load the (lifted) modules of $TERM_IMAGE_REPO."""
    src = os.path.join(repo_root(), "src")
    for m in [m for m in sys.modules if m == "term_image" or m.startswith("term_image.")]:
        del sys.modules[m]
    sys.meta_path[:] = [f for f in sys.meta_path if not isinstance(f, LiftFinder)]
    if lift:
        sys.meta_path.insert(0, LiftFinder(src))
    else:
        sys.meta_path[:] = [f for f in sys.meta_path if "editable" not in type(f).__module__.lower() or True]
    if src in sys.path:
        sys.path.remove(src)
    sys.path.insert(0, src)
    # deterministic environment: no controlling terminal while importing
    import warnings

    real_ttyname, real_open = os.ttyname, os.open

    def no_tty(*a, **k):
        raise OSError("no tty (sx)")

    def open_no_tty(path, *a, **k):
        if path == "/dev/tty":
            raise OSError("no tty (sx)")
        return real_open(path, *a, **k)

    os.ttyname, os.open = no_tty, open_no_tty
    for nm in ("__stdin__", "__stdout__", "__stderr__"):
        f = getattr(sys, nm, None)
        if f is None or getattr(f, "closed", False):
            setattr(sys, nm, open(os.devnull, "r" if nm == "__stdin__" else "w"))
    try:
        with warnings.catch_warnings():
            warnings.simplefilter("ignore")
            import term_image  # noqa: F401

            if eager_image:
                import term_image.image  # noqa: F401
    finally:
        os.ttyname, os.open = real_ttyname, real_open

    got = os.path.realpath(os.path.dirname(term_image.__file__))
    want = os.path.realpath(os.path.join(src, "term_image"))
    if got != want:
        raise RuntimeError(f"term_image imported from {got}, expected {want}")
    return term_image
