"""pytest plugin: run the repository's own tests against the *lifted* modules
(translator validation, DESIGN.md 2.1)."""
from sx import lifting

lifting.install(lift=True, eager_image=False)  # the test-suite stubs utils before importing .image


def pytest_report_header(config):
    return f"sx: {len(lifting.LIFTED)} term_image modules lifted, {sum(n for _, n in lifting.LIFTED.values())} rewrites"
