"""Driver: ./run Cxx --tier quick|thorough | --replay file | --xcheck file

Verdict protocol (DESIGN.md 2.7):
  exit 0  every decided query unsat, vacuity twins reachable, >= 1 query decided
  exit 1  + "VIOLATION property=<id> replay=<path>": a model that reproduced on the
          unmodified code and is not listed in known_findings.json
  exit 3  harness error (non-reproducing model, vacuous harness, cross-check mismatch,
          nothing decided)
"""
from __future__ import annotations

import argparse
import hashlib
import importlib
import json
import multiprocessing as mp
import os
import subprocess
import sys
import time
import traceback

VERIF = os.path.dirname(os.path.dirname(os.path.abspath(__file__)))
HARNESS_ERROR = 3


class Check:
    """Base class of a property harness."""

    id = "C00"
    level = "other"
    title = ""
    functions = []  # "module:qualname" of the real functions executed symbolically
    assumptions = []
    bounds = {}
    explanation = ""
    rule = (
        "one case = one (shape, path, claim) obligation discharged over all values of the symbolic inputs; "
        "non-trivial = its path condition contains at least one solver-made decision on a symbolic input or the "
        "claim itself needed a solver call (cases on input-independent paths whose claim simplifies to true are "
        "trivial); distinct = distinct (shape, decision prefix, claim name, occurrence)"
    )
    max_paths = 20000
    lift = True
    fl_functional = False  # float results as uninterpreted functions of the operand values (functional consistency)
    relaxed_floats = False  # a non-reproducing model may be an artefact of the float relaxation

    def shapes(self, tier):
        return [{}]

    def budget(self, tier):
        """per-shape wall budget (s), claim timeout (ms)"""
        return (120, 20000) if tier == "quick" else (1500, 300000)

    def setup(self, shape, concrete):
        """Install stubs / environment (module globals).  Called once per process."""

    def body(self, eng, shape):
        raise NotImplementedError

    # known-finding matching: a violation is identified by (claim name, shape subset)
    def finding_signature(self, shape, claim):
        return claim


def load_check(pid):
    mod = importlib.import_module(f"harness.{pid}")
    return mod.CHECK


def _worker(args):
    pid, shape, tier, seed, shape_budget = args
    t0 = time.time()
    from sx import core, lifting

    out = {"shape": shape, "claims": [], "limits": [], "paths": 0, "error": None, "obs": [], "samples": []}
    try:
        check = load_check(pid)
        lifting.install(lift=check.lift)
        check.setup(shape, False)
        budget_s, claim_ms = check.budget(tier)
        if shape_budget:
            budget_s = min(budget_s, shape_budget)
        E = core.Engine(claim_timeout_ms=claim_ms, seed=seed)
        E.fl_functional = check.fl_functional
        E.shape_budget_s = budget_s
        outcomes = E.explore(lambda e: check.body(e, shape), max_paths=check.max_paths, budget_s=budget_s)
        out["paths"] = E.paths
        out["aborted"] = sum(1 for _, o in outcomes if o == "abort")
        out["ok_paths"] = sum(1 for _, o in outcomes if o == "ok")
        out["incomplete"] = E.incomplete
        out["limits"] = E.limits[:20]
        out["n_limits"] = len(E.limits)
        out["limit_models"] = E.limit_models
        out["claims"] = [
            {"name": c.name, "status": c.status, "t": round(c.time, 4), "model": c.model, "note": c.note, "prefix": core._dec_repr(c.key[0]) if c.key else ""}
            for c in E.claims
        ]
        out["mc_states"] = len(E.mc_states)
        out["mc_transitions"] = len(E.mc_transitions)
        out["feas_queries"] = E.feas_queries
        out["claim_queries"] = E.claim_queries
        out["solver_s"] = round(E.solver_time, 3)
        out["obs"] = E.observations[:40]
        out["samples"] = E.path_samples
        out["lifted"] = {k: v[1] for k, v in lifting.LIFTED.items()}
    except BaseException as e:  # noqa: BLE001 - report everything as harness error
        out["error"] = "".join(traceback.format_exception(type(e), e, e.__traceback__))[-3000:]
    out["wall_s"] = round(time.time() - t0, 3)
    return out


def _child(conn, task):
    try:
        conn.send(_worker(task))
        conn.close()
    finally:
        os._exit(0)


def _run_shapes(tasks, jobs, hard_timeout):
    """One forked process per shape, at most `jobs` at a time.  A worker that dies (crash of the interpreter, kill) or
    exceeds the hard time-out yields an error result for its shape instead of hanging the run."""
    from multiprocessing import connection

    ctx = mp.get_context("fork")
    pending = list(enumerate(tasks))
    running, results = {}, [None] * len(tasks)

    def failed(task, why):
        return {"shape": task[1], "claims": [], "limits": [], "paths": 0, "error": why, "obs": [], "samples": []}

    while pending or running:
        while pending and len(running) < jobs:
            i, t = pending.pop(0)
            r, w = ctx.Pipe(duplex=False)
            p = ctx.Process(target=_child, args=(w, t), daemon=True)
            p.start()
            w.close()
            running[i] = (p, r, time.time(), t)
        ready = connection.wait([v[1] for v in running.values()], timeout=1.0)
        for i, (p, r, t0, t) in list(running.items()):
            if r in ready:
                try:
                    results[i] = r.recv()
                except (EOFError, OSError):
                    p.join(5)
                    results[i] = failed(t, f"worker process died without a result (exit code {p.exitcode}) - e.g. a crash of the interpreter while running the code under test")
                r.close()
                p.join(10)
                if p.is_alive():
                    p.kill()
                del running[i]
            elif time.time() - t0 > hard_timeout:
                p.kill()
                p.join(5)
                r.close()
                results[i] = failed(t, f"worker exceeded the hard time-out of {int(hard_timeout)} s and was killed")
                del running[i]
    return results


def run_concrete(pid, shape, inputs):
    """Run the harness body on the UNLIFTED code with concrete inputs."""
    from sx import core, lifting

    check = load_check(pid)
    lifting.install(lift=False)
    check.setup(shape, True)
    E = core.Engine(concrete=inputs)
    err = None
    try:
        E.explore(lambda e: check.body(e, shape))
    except core.Abort as e:
        err = f"abort: {e}"
    except BaseException as e:  # noqa: BLE001
        err = "".join(traceback.format_exception(type(e), e, e.__traceback__))[-2000:]
    return {
        "claims": [{"name": c.name, "status": c.status} for c in E.claims],
        "obs": E.observations[-1] if E.observations else {},
        "error": err,
    }


def _jsonable(x):
    if isinstance(x, dict):
        return {str(k): _jsonable(v) for k, v in x.items()}
    if isinstance(x, (list, tuple)):
        return [_jsonable(v) for v in x]
    if isinstance(x, (int, float, str, bool)) or x is None:
        return x
    return repr(x)


def _subprocess_json(argv, timeout=600):
    env = dict(os.environ)
    env["PYTHONPATH"] = VERIF + os.pathsep + env.get("PYTHONPATH", "")
    p = subprocess.run([sys.executable, "-m", "sx.driver"] + argv, capture_output=True, text=True, timeout=timeout, env=env, cwd=VERIF)
    return p


def source_hashes(functions):
    """sha256 of the source text of each encoded function, read from the repo now."""
    import ast

    repo = os.environ.get("TERM_IMAGE_REPO", "/repo")
    out = {}
    cache = {}
    for f in functions:
        mod, _, qual = f.partition(":")
        path = os.path.join(repo, "src", *mod.split(".")) + ".py"
        if not os.path.exists(path):
            path = os.path.join(repo, "src", *mod.split("."), "__init__.py")
        try:
            if path not in cache:
                src = open(path).read()
                cache[path] = (src, ast.parse(src))
            src, tree = cache[path]
            node = tree
            for part in qual.split("."):
                node = next(n for n in ast.walk(node) if isinstance(n, (ast.FunctionDef, ast.ClassDef, ast.AsyncFunctionDef)) and n.name == part)
            seg = ast.get_source_segment(src, node)
            out[f] = hashlib.sha256(seg.encode()).hexdigest()[:16]
        except Exception as e:  # noqa: BLE001
            out[f] = f"unresolved ({type(e).__name__})"
    return out


def main(argv=None):
    ap = argparse.ArgumentParser()
    ap.add_argument("pid")
    ap.add_argument("--tier", default=os.environ.get("VERIF_TIER", "quick"))
    ap.add_argument("--replay")
    ap.add_argument("--xcheck")
    ap.add_argument("--jobs", type=int, default=min(16, os.cpu_count() or 4))
    ap.add_argument("--shape", help="run only shapes whose JSON contains this substring")
    ap.add_argument("-v", action="store_true")
    a = ap.parse_args(argv)
    sys.path.insert(0, VERIF)
    pid = a.pid
    seed = int(os.environ.get("VERIF_SEED", "0") or 0)

    if a.replay:
        data = json.load(open(a.replay))
        res = run_concrete(pid, data["shape"], data["inputs"])
        bad = [c for c in res["claims"] if c["status"] == "VIOLATED"]
        print(json.dumps({"claims": res["claims"], "error": res["error"]}))
        want = data.get("claim")
        hit = any((want is None or c["name"] == want) for c in bad)
        if res["error"] and not (hit and res["error"].startswith("abort:")):
            # (an assumption that fails *after* the claim was evaluated is not retroactive: the violation stands)
            print("REPLAY-ERROR", res["error"], file=sys.stderr)
            return 2
        if hit:
            print(f"REPRODUCED property={pid} claim={want} violated on the real code with inputs {data['inputs']}")
            return 1
        print("NOT-REPRODUCED")
        return 0

    if a.xcheck:
        items = json.load(open(a.xcheck))
        out = []
        for it in items:
            r = run_concrete(pid, it["shape"], it["inputs"])
            out.append({"obs": _jsonable(r["obs"]), "error": r["error"], "claims": r["claims"]})
        print("XCHECK-JSON " + json.dumps(out))
        return 0

    check = load_check(pid)
    tier = a.tier
    t0 = time.time()
    shapes = check.shapes(tier)
    if a.shape:
        shapes = [s for s in shapes if a.shape in json.dumps(s)]
    # wall-clock target of the whole run (thorough tier: VERIF_WALL seconds, default 900): every shape gets an equal share of
    # worker time; a shape that uses its share up is reported as "exploration incomplete" (inconclusive), never as held
    wall_target = int(os.environ.get("VERIF_WALL", "900" if tier == "thorough" else "0") or 0)
    jobs = max(1, min(a.jobs, len(shapes)))
    shape_budget = max(20, int(0.8 * wall_target * jobs / max(1, len(shapes)))) if wall_target else 0
    hard = 1.5 * (shape_budget or check.budget(tier)[0]) + 180
    results = _run_shapes([(pid, s, tier, seed, shape_budget) for s in shapes], jobs, hard)

    os.makedirs(os.path.join(VERIF, "evidence"), exist_ok=True)
    os.makedirs(os.path.join(VERIF, "replays"), exist_ok=True)
    known = json.load(open(os.path.join(VERIF, "known_findings.json")))
    known_here = [k for k in known.get("findings", []) if k["property"] == pid]

    errors, status_count = [], {}
    sat_claims, inconclusive = [], []
    n_claims = n_nontrivial = 0
    twins = {}
    for r in results:
        if r["error"]:
            errors.append(f"shape {r['shape']}: {r['error']}")
            continue
        for c in r["claims"]:
            if c["name"].startswith("twin:"):
                twins.setdefault((json.dumps(r["shape"], sort_keys=True), c["name"]), []).append(c["status"])
                continue
            n_claims += 1
            status_count[c["status"]] = status_count.get(c["status"], 0) + 1
            # non-trivial: the case depends on symbolic inputs - its path condition contains at least one
            # solver-made decision, or the claim itself needed a solver call
            if c.get("note") != "trivial" or c.get("prefix"):
                n_nontrivial += 1
            if c["status"] == "sat":
                sat_claims.append((r["shape"], c))
            elif c["status"] != "unsat":
                inconclusive.append({"shape": r["shape"], "claim": c["name"], "status": c["status"]})
        if r.get("incomplete"):
            inconclusive.append({"shape": r["shape"], "claim": "*", "status": "exploration incomplete: " + r["incomplete"]})
        if r.get("n_limits"):
            inconclusive.append({"shape": r["shape"], "claim": "*", "status": f"{r['n_limits']} paths hit an engine limit, e.g. {r['limits'][:2]}"})
            # a limit that is not a matter of time (an operation the engine cannot encode) means the current tree cannot be
            # decided on those paths: that is reported as a harness error (exit 3: no verdict), never as "held"
            hard = [why for _p, why in r["limits"] if not any(t in why for t in ("time limit", "solver unknown", "Unknown", "time budget", "'unknown' feasibility"))]
            if hard:
                errors.append(f"engine limit (no verdict for these paths) in shape {json.dumps(r['shape'])}: {hard[0][:200]} ({len(hard)} of the first {len(r['limits'])} limited paths)")

    # vacuity: every twin name must be reached on at least one path of its shape
    for (sh, name), sts in twins.items():
        if "reached" not in sts:
            errors.append(f"vacuous harness: {name} unreachable for shape {sh}")
    if twins:
        # a shape none of whose paths got as far as its reachability twin decided nothing (e.g. every path hit an engine limit)
        with_twin = {sh for (sh, _n) in twins}
        for r in results:
            if not r["error"] and json.dumps(r["shape"], sort_keys=True) not in with_twin:
                errors.append(f"vacuous harness: no path of shape {json.dumps(r['shape'])} reached its reachability twin ({r.get('n_limits', 0)} paths hit an engine limit: {r.get('limits', [])[:1]})")

    # replays: each distinct (claim signature) once; the model must reproduce on the real code
    violations, known_hits, nonrepro = [], [], []
    seen_sig = set()
    tries = {}
    for shape, c in sat_claims:
        sig = (check.finding_signature(shape, c["name"]),)
        if sig in seen_sig:
            continue  # already reproduced once for this claim
        tries[sig] = tries.get(sig, 0) + 1
        if tries[sig] > 4:
            continue  # at most 4 models are replayed per claim
        n = len([f for f in os.listdir(os.path.join(VERIF, "replays")) if f.startswith(pid + "_")])
        path = os.path.join(VERIF, "replays", f"{pid}_{tier}_{len(seen_sig)}.json")
        json.dump({"property": pid, "shape": shape, "inputs": c["model"], "claim": c["name"], "how": f"./run {pid} --replay {path}"}, open(path, "w"), indent=1)
        p = _subprocess_json([pid, "--replay", path])
        if p.returncode == 1:
            kf = next((k for k in known_here if k["signature"] == sig[0]), None)
            rec = {"sig": sig, "claim": c["name"], "shape": shape, "inputs": c["model"], "replay": path}
            if kf:
                known_hits.append((kf, rec))
            else:
                violations.append(rec)
            seen_sig.add(sig)
        else:
            nonrepro.append({"claim": c["name"], "shape": shape, "inputs": c["model"], "replay_rc": p.returncode, "out": (p.stdout + p.stderr)[-600:]})
            try:
                os.remove(path)
            except OSError:
                pass

    # concretisation cross-check: models of explored paths run on the unlifted code
    xitems = []
    for r in results:
        for model, obs in (r.get("obs") or [])[: (3 if tier == "quick" else 8)]:
            xitems.append({"shape": r["shape"], "inputs": model, "expect": _jsonable(obs)})
    n_obs_items = len(xitems)
    for r in results:
        # concolic fall-back for paths the engine could not finish: the solver's input for the path prefix is run on
        # the real code; a claim failing there is a reproduced violation (it never turns "inconclusive" into "holds")
        for model, why in (r.get("limit_models") or [])[: (4 if tier == "quick" else 12)]:
            xitems.append({"shape": r["shape"], "inputs": model, "fallback": why})
    validated = 0
    fallback_runs = 0
    xmismatch = []
    sat_names = {(json.dumps(sh, sort_keys=True), c["name"]) for sh, c in sat_claims}
    if xitems:
        xp = os.path.join(VERIF, "replays", f".{pid}_xcheck_{os.getpid()}.json")
        json.dump(xitems, open(xp, "w"))
        chunks = [xitems[i::a.jobs] for i in range(a.jobs) if xitems[i::a.jobs]]
        procs = []
        for i, ch in enumerate(chunks):
            cp = xp + f".{i}"
            json.dump(ch, open(cp, "w"))
            env = dict(os.environ)
            env["PYTHONPATH"] = VERIF + os.pathsep + env.get("PYTHONPATH", "")
            procs.append((ch, cp, subprocess.Popen([sys.executable, "-m", "sx.driver", pid, "--xcheck", cp], stdout=subprocess.PIPE, stderr=subprocess.PIPE, text=True, env=env, cwd=VERIF)))
        for ch, cp, pr in procs:
            so, se = pr.communicate(timeout=900)
            os.remove(cp)
            at = so.find("XCHECK-JSON ")
            if at < 0:
                errors.append("cross-check subprocess failed: " + (so + se)[-800:])
                continue
            got_list, _ = json.JSONDecoder().raw_decode(so[at + len("XCHECK-JSON "):])
            for it, got in zip(ch, got_list):
                if "fallback" in it:
                    fallback_runs += 1
                    for c in got["claims"]:
                        if c["status"] != "VIOLATED":
                            continue
                        sig = (check.finding_signature(it["shape"], c["name"]),)
                        if sig in seen_sig:
                            continue
                        seen_sig.add(sig)
                        path = os.path.join(VERIF, "replays", f"{pid}_{tier}_{len(seen_sig) - 1}.json")
                        json.dump({"property": pid, "shape": it["shape"], "inputs": it["inputs"], "claim": c["name"], "how": f"./run {pid} --replay {path}",
                                   "note": "found by the concolic fall-back (path beyond the engine: " + it["fallback"] + ")"}, open(path, "w"), indent=1)
                        rec = {"sig": sig, "claim": c["name"], "shape": it["shape"], "inputs": it["inputs"], "replay": path}
                        kf = next((k for k in known_here if k["signature"] == sig[0]), None)
                        (known_hits.append((kf, rec)) if kf else violations.append(rec))
                    continue
                if got["error"]:
                    xmismatch.append({"inputs": it["inputs"], "shape": it["shape"], "error": got["error"][-400:]})
                elif got["obs"] != it["expect"]:
                    xmismatch.append({"inputs": it["inputs"], "shape": it["shape"], "symbolic": it["expect"], "concrete": got["obs"]})
                elif any(c["status"] == "VIOLATED" and (json.dumps(it["shape"], sort_keys=True), c["name"]) not in sat_names for c in got["claims"]):
                    # violated on the real code although every symbolic query for that claim was unsat
                    xmismatch.append({"inputs": it["inputs"], "shape": it["shape"], "claims": got["claims"]})
                else:
                    validated += 1
        os.remove(xp)
    if xmismatch and check.relaxed_floats:
        # the real-arithmetic relaxation admits several outcomes at rounding boundaries; the doubles pick one
        inconclusive.append({"claim": "cross-check", "status": f"{len(xmismatch)} solver-chosen inputs sit on a float rounding boundary (relaxation admits both outcomes)", "example": xmismatch[0]})
    elif xmismatch:
        errors.append(f"concretisation cross-check: {len(xmismatch)} mismatches, e.g. {json.dumps(xmismatch[0])[:1200]}")
    if nonrepro and check.relaxed_floats:
        for n in nonrepro:
            inconclusive.append({"shape": n["shape"], "claim": n["claim"], "status": "sat in the real-arithmetic relaxation but not reproduced with doubles", "inputs": n["inputs"]})
    elif nonrepro:
        errors.append(f"{len(nonrepro)} solver models did not reproduce on the real code (encoding or stub wrong), e.g. {json.dumps(nonrepro[0])[:1500]}")
    decided = status_count.get("unsat", 0) + status_count.get("sat", 0)
    if decided == 0 and not errors:
        errors.append("no query was decided")

    wall = time.time() - t0
    samples = []
    for r in results[:4]:
        for s in (r.get("samples") or [])[:2]:
            samples.append({"shape": r["shape"], **s})
    for r in results:
        for c in r.get("claims", []):
            if c["status"] == "unsat" and c.get("note") != "trivial" and len(samples) < 10:
                samples.append({"shape": r["shape"], "claim": c["name"], "verdict": "unsat (holds for all inputs on this path)", "path": c["prefix"], "solver_s": c["t"]})
                break
    lifted = next((r.get("lifted") for r in results if r.get("lifted")), {})
    ev = {
        "property_id": pid,
        "tier": tier if tier in ("quick", "thorough") else "quick",
        "seed": seed,
        "level": check.level,
        "coverage": {
            "explanation": check.explanation,
            "evaluations": n_claims,
            "distinct_nontrivial": n_nontrivial,
            "rule": check.rule,
            "samples": samples or [{"note": "no sample recorded"}],
            "traces_validated_against_impl": validated,
            "concolic_fallback_runs": fallback_runs,
            "exhaustive": False,
            "technique": "bounded symbolic execution of the real functions (proxy engine + z3), claims discharged as unsat queries",
            "functions_encoded": source_hashes(check.functions),
            "modules_lifted_from_current_source": lifted,
            "bounds": check.bounds.get(tier, check.bounds) if isinstance(check.bounds, dict) else check.bounds,
            "shapes": len(shapes),
            "wall_target_s": wall_target or None,
            "per_shape_time_budget_s": shape_budget or None,
            "paths_explored": sum(r.get("paths", 0) for r in results),
            "paths_infeasible": sum(r.get("aborted", 0) for r in results),
            "queries_by_status": status_count,
            "feasibility_queries": sum(r.get("feas_queries", 0) for r in results),
            "claim_queries": sum(r.get("claim_queries", 0) for r in results),
            "solver_s": round(sum(r.get("solver_s", 0) for r in results), 2),
            "inconclusive": inconclusive[:30],
            "inconclusive_count": len(inconclusive),
            "vacuity_twins_reached": sum(1 for s in twins.values() if "reached" in s),
            "vacuity_twins_total": len(twins),
            "known_findings_hit": [k["id"] for k, _ in known_hits],
            "harness_errors": errors[:10],
        },
        "assumptions": list(check.assumptions),
        "wall_s": round(wall, 2),
        "violations": len(violations),
    }
    if check.level == "model_checking":
        # symbolic states = distinct decision prefixes at which an operation was applied (+ final states = paths);
        # transitions = distinct (state, operation) pairs executed
        ev["coverage"]["states"] = sum(r.get("mc_states", 0) for r in results) + sum(r.get("ok_paths", 0) for r in results)
        ev["coverage"]["transitions"] = sum(r.get("mc_transitions", 0) for r in results)
    ev_dir = os.path.join(VERIF, "evidence")
    if os.path.realpath(os.environ.get("TERM_IMAGE_REPO", "/repo")) != "/repo":
        # runs against a scratch copy (seeded changes, mutants) must not overwrite the evidence of /repo
        ev_dir = os.path.join(VERIF, "evidence", ".scratch")
        os.makedirs(ev_dir, exist_ok=True)
    json.dump(ev, open(os.path.join(ev_dir, f"{pid}.json"), "w"), indent=1)

    print(f"{pid} [{tier}] shapes={len(shapes)} paths={ev['coverage']['paths_explored']} queries={n_claims} {status_count} "
          f"inconclusive={len(inconclusive)} xcheck={validated}/{n_obs_items} fallback={fallback_runs} solver={ev['coverage']['solver_s']}s wall={wall:.1f}s")
    if a.v:
        for i in inconclusive[:20]:
            print("  inconclusive:", json.dumps(i)[:400])
    for kf, rec in known_hits:
        print(f"KNOWN-FINDING: property={pid} {kf['what']} (replay={rec['replay']})")
    for e in errors:
        print("HARNESS-ERROR:", e[:3000])
    for v in violations:
        print(f"  violated claim {v['claim']} shape={json.dumps(v['shape'])} inputs={json.dumps(v['inputs'])}")
        print(f"VIOLATION property={pid} replay={v['replay']}")
    if violations:
        return 1
    if errors:
        return HARNESS_ERROR
    return 0


if __name__ == "__main__":
    sys.exit(main())
