#!/usr/bin/env python3
"""Regenerate the generated tables of DESIGN.md (between <!-- X --> ... <!-- /X --> markers) from
known_findings.json, seeded/*/result.txt + meta.agent.json, and evidence/*.json."""
import glob
import json
import os
import re

V = os.path.dirname(os.path.dirname(os.path.abspath(__file__)))
d = open(os.path.join(V, "DESIGN.md")).read()


def put(tag, body):
    global d
    block = f"<!-- {tag} -->\n{body}\n<!-- /{tag} -->"
    if f"@@{tag}@@" in d:
        d = d.replace(f"@@{tag}@@", block)
    else:
        d = re.sub(rf"<!-- {tag} -->.*?<!-- /{tag} -->", lambda m: block, d, flags=re.S)


kf = json.load(open(os.path.join(V, "known_findings.json")))
rows = ["| Property | fix commit | what failed (the concrete input / history) | found by |", "|---|---|---|---|"]
for f in kf["fixed"]:
    what = f["line"].split(f["commit"], 1)[1].strip()
    rows.append(f"| {f['property']} | `{f['commit']}` | {what} | {f['found_by']} |")
put("FIXED_TABLE", "\n".join(rows))

rows = ["| Seed | property | change (from the sub-agent's summary) | needs to manifest | test-suite with the change | demo /repo / patched | first run of the check | check result now |", "|---|---|---|---|---|---|---|---|"]
for dd in sorted(glob.glob(os.path.join(V, "seeded", "*-*"))):
    name = os.path.basename(dd)
    meta = {}
    for fn in ("meta.json", "meta.agent.json"):
        p = os.path.join(dd, fn)
        if os.path.exists(p):
            try:
                meta = json.load(open(p))
                break
            except Exception:
                pass
    res = open(os.path.join(dd, "result.txt")).read() if os.path.exists(os.path.join(dd, "result.txt")) else ""
    t = re.search(r"tests on patched tree: =*\s*(.*?)\s*=*$", res, re.M)
    dm = re.search(r"demo exit on /repo: (\d+) ; on patched tree: (\d+)", res)
    ck = re.search(r"-> exit (\d+), (\d+) VIOLATION line\(s\), (\d+)s", res)
    summ = str(meta.get("summary", "")).replace("|", "/").replace("\n", " ")[:260]
    need = str(meta.get("needs_to_manifest", meta.get("needs", ""))).replace("|", "/").replace("\n", " ")[:260]
    rows.append(
        f"| {name} | {name.split('-')[0]} | {summ} | {need} | {t.group(1)[:40] if t else '?'} | {dm.group(1) + ' / ' + dm.group(2) if dm else '?'} | {str((meta.get('history') or {}).get('first_run', 'caught by the check as it stood')).replace('|', '/')[:300]} | "
        + (f"**caught**: exit {ck.group(1)}, {ck.group(2)} reproduced VIOLATION(s), {ck.group(3)} s" if ck and ck.group(1) == "1" else (f"exit {ck.group(1)} ({ck.group(2)} violations)" if ck else "not run")) + " |"
    )
put("SEED_TABLE", "\n".join(rows))

rows = ["| Check | level | shapes | paths | queries discharged (all unsat) | inconclusive | cross-checked traces | solver s | quick wall s |", "|---|---|---|---|---|---|---|---|---|"]
for p in sorted(glob.glob(os.path.join(V, "evidence", "C*.json"))):
    e = json.load(open(p))
    c = e["coverage"]
    rows.append(f"| {e['property_id']} | {e['level']} | {c.get('shapes')} | {c.get('paths_explored')} | {c.get('queries_by_status')} | {c.get('inconclusive_count')} | {c.get('traces_validated_against_impl')} | {c.get('solver_s')} | {e['wall_s']} ({e['tier']}) |")
body = "Last recorded runs (from `evidence/*.json`):\n\n" + "\n".join(rows)
tp = os.path.join(V, "thorough_results.json")
if os.path.exists(tp):
    tr = json.load(open(tp))
    rows = ["| Check | bounds | shapes | paths | queries by status | inconclusive (incomplete shapes, unknowns) | cross-checked traces | solver s | wall s | per-shape budget s |", "|---|---|---|---|---|---|---|---|---|---|"]
    for k in sorted(tr):
        r = tr[k]
        rows.append(f"| {k} | {json.dumps(r.get('bounds'))[:200]} | {r.get('shapes')} | {r.get('paths')} | {r.get('queries_by_status')} | {r.get('inconclusive_count')} | {r.get('traces_validated_against_impl')} | {r.get('solver_s')} | {r.get('wall_s')} | {r.get('per_shape_time_budget_s')} |")
    body += "\n\nThorough tier, last end-to-end runs (`thorough_results.json`, written by `tools/save_thorough.py`; all exit 0, no violation):\n\n" + "\n".join(rows)
put("TIMING_TABLE", body)
open(os.path.join(V, "DESIGN.md"), "w").write(d)
print("DESIGN.md tables regenerated")
