#!/bin/sh
# tools/mutant.sh <patch.diff> <Cxx> [tier]  - run a check against a scratch copy of /repo with a patch applied
set -e
PATCH=$(realpath "$1"); PID=$2; TIER=${3:-quick}
D=$(mktemp -d /tmp/mut.XXXXXX)
git -C /repo worktree add --detach -f "$D/repo" HEAD >/dev/null 2>&1
( cd "$D/repo" && git apply "$PATCH" )
if [ -n "$RUN_TESTS" ]; then ( cd "$D/repo" && /venv/bin/python -m pytest -q -p no:cacheprovider --continue-on-collection-errors --deselect tests/test_image/test_url.py 2>&1 | tail -3 ); fi
set +e
TERM_IMAGE_REPO="$D/repo" /verif/run "$PID" --tier "$TIER" | grep -v "^  inconclusive" | tail -12
RC=$?
git -C /repo worktree remove --force "$D/repo"; rm -rf "$D"
exit $RC
