#!/usr/bin/env python3
"""Copy the key numbers of every evidence file whose tier is 'thorough' into thorough_results.json (committed), so that the
later quick runs (which rewrite evidence/) do not erase the record of the thorough runs."""
import glob, json, os
V = os.path.dirname(os.path.dirname(os.path.abspath(__file__)))
p = os.path.join(V, "thorough_results.json")
out = json.load(open(p)) if os.path.exists(p) else {}
for f in sorted(glob.glob(os.path.join(V, "evidence", "C*.json"))):
    e = json.load(open(f))
    if e.get("tier") != "thorough":
        continue
    c = e["coverage"]
    out[e["property_id"]] = {
        "wall_s": e["wall_s"], "violations": e["violations"], "bounds": c.get("bounds"), "shapes": c.get("shapes"), "paths": c.get("paths_explored"),
        "queries_by_status": c.get("queries_by_status"), "inconclusive_count": c.get("inconclusive_count"), "solver_s": c.get("solver_s"),
        "traces_validated_against_impl": c.get("traces_validated_against_impl"), "wall_target_s": c.get("wall_target_s"),
        "per_shape_time_budget_s": c.get("per_shape_time_budget_s"), "harness_errors": c.get("harness_errors"),
        "inconclusive_examples": [str(i.get("status"))[:160] for i in (c.get("inconclusive") or [])[:3]],
    }
json.dump(out, open(p, "w"), indent=1, sort_keys=True)
print("thorough_results.json:", sorted(out))
