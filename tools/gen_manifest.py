#!/usr/bin/env python3
"""Regenerate MANIFEST.json from the table below (keeps it schema-valid)."""
import json
import os

VERIF = os.path.dirname(os.path.dirname(os.path.abspath(__file__)))

TECH_S = "bounded symbolic execution of the real Python functions (proxy engine) with z3 deciding every claim as an unsat query over symbolic inputs"

CHECKS = {
    "C04": dict(
        category="other",
        text="Bounded symbolic execution of the real BaseImage._valid_size / set_size / _renderer for both style families: "
        "sizes, terminal, frame, cell ratio are z3 variables (magnitude <= 2^12 quick / 2^20 thorough, ratio in [1/32, 8]); every clause "
        "of the property is an unsat query per path. Doubles are a sound real relaxation, so 'holds' transfers to doubles; graphics cell "
        "sizes are enumerated over a stated grid.",
        note="Trusted: z3; the proxy engine (cross-checked per path against the unlifted code on solver-chosen inputs); float model "
        "(relative error 2^-53 per operation, no overflow); stubs for terminal size / cell size / cell ratio getters.",
        design="3 C04",
        technique=TECH_S + "; floats as reals with per-operation relative error",
    ),
}

CHECKS.update(
    C01=dict(
        category="other",
        text="Bounded symbolic execution of the real block / kitty / iterm2 _render_image (incl. Transmission.get_chunks) with rendered width, "
        "terminal size, cursor start, z-index, compression level, flags and payload lengths as z3 variables; rendered height, cell size, "
        "terminal identity, method and mode enumerated. The output term is run on a terminal model with one symbolic probe cell, so "
        "'changes only / covers the rectangle', cursor, wrap/scroll, SGR reset, complete sequences and newline count are unsat queries "
        "covering every cell, size and position within the bounds.",
        note="Trusted: the terminal model sx/term.py (documented in DESIGN 2.3), z3, the proxy engine (cross-checked against the unlifted "
        "code per shape), opaque-payload stubs for zlib/base64/PIL encoders. Heights above the enumerated bound are outside the claim.",
        design="3 C01",
        technique=TECH_S + "; terminal-model oracle with a symbolic probe cell",
    ),
    C02=dict(
        category="other",
        text="The real BlockImage._render_image runs on fully symbolic pixel data (every channel a z3 Int, every alpha class a z3 Bool, "
        "terminal background and kitty workaround symbolic) for enumerated small widths/heights; the half-cell colours the terminal "
        "model shows in a symbolic probe cell must equal the two source pixels. The solver ranges over all run boundaries and alpha "
        "transitions. The pixel pipeline _get_render_data is checked with PIL operations as uninterpreted functions.",
        note="Trusted: terminal model, PIL's own arithmetic (convert/resize/composite), z3, engine. Image sizes beyond the enumerated "
        "grid are outside the claim (the renderer is a per-line run-length loop, so behaviour is uniform in the line count).",
        design="3 C02",
        technique=TECH_S + "; per-cell colour comparison on the terminal model",
    ),
    C03=dict(
        category="other",
        text="The real kitty/iterm2 renderers, Transmission and ControlData run on opaque payload objects with symbolic lengths and offsets; "
        "chunk slices must tile the base64 text, strips must tile tobytes(), control keys must carry the expected symbolic values, size= "
        "must equal the encoder output length, the read-from-file gate is an iff. One query covers 0, 1, exactly-k and k+epsilon chunks. "
        "Counterexamples are replayed on the unmodified code by decoding the real base64 payloads.",
        note="Trusted: inverse axioms for zlib/base64/PNG/JPEG, z3, engine. Payloads longer than max_chunks x 4096 base64 characters are "
        "outside the claim (stated bound; the chunk loop is explored completely below it).",
        design="3 C03",
        technique=TECH_S + "; provenance-tracking opaque payloads with symbolic offsets",
    ),
)

CHECKS.update(
    C05=dict(
        category="other",
        text="The real Padding classes, BaseImage._format_render/_check_formatting and Renderable.render run on proxy values: render size, "
        "minimum size (absolute / terminal-relative), exact margins and terminal size are unbounded z3 integers (alignment is a forked "
        "selector); get_padded_size = to_exact = max(render, minimum), resolve = max(terminal+d, 1) and the alignment split are unsat "
        "queries. The padded output term is then interpreted on the terminal model with a symbolic probe cell: inner render exactly at "
        "the alignment offset, fill (or untouched cells) elsewhere in the box, nothing outside, cursor and line count.",
        note="Trusted: terminal model, z3, engine. Render heights and vertical margins are enumerated (bound stated in the evidence); "
        "the inner render is an abstract box (glyph rows / ECH+CUF rows) whose contract C01 establishes for the real renderers.",
        design="3 C05",
        technique=TECH_S + "; terminal-model oracle with a symbolic probe cell",
    ),
)

TECH_M = "bounded model checking by symbolic execution of the real code against a reference model: operations chosen by solver-forked selectors, arguments symbolic, every step's claim an unsat z3 query"
CHECKS.update(
    C08=dict(
        category="model_checking",
        text="The real RenderIterator (generator included) is executed next to a reference model written from its documentation. Frame count "
        "(>= 2, unbounded) or INDEFINITE, loops, all offsets, durations, sizes, padding dimensions, terminal size and render-argument values "
        "are z3 variables; each step applies one of the nine public operations (forked selector). A prefix seek(a); next() with symbolic a "
        "reaches every (next frame, loop countdown) state including the end-of-loop boundary, so k steps are checked from any reachable "
        "state; after every operation frame fields, loop countdown, next frame and exception types must equal the model's.",
        note="Trusted: the reference model (harness/iter_common.py), z3, engine (cross-checked against the unlifted code). Histories longer "
        "than the stated k after the prefix, and cached iteration with more than 3 frames, are outside the claim.",
        design="3 C08",
        technique=TECH_M,
    ),
    C09=dict(
        category="model_checking",
        text="Relational check: two real RenderIterators (cache on/off) receive the same symbolic operation history; frames must be equal "
        "term-for-term after every next(), outcomes (exceptions) equal, and on the cached side no frame may be rendered twice within an "
        "epoch of unchanged settings (render log compared as z3 terms). The cache on/off decision is checked for every integer cache "
        "argument. ImageIterator._animate's two-phase cache is run against per-position rendering with symbolic image-size changes.",
        note="Trusted: z3, engine, injectivity of Python's tuple hash on the sizes compared (modelled as an injective uninterpreted "
        "function). Frame counts 2-3, loops in {2, -1}, k-step histories (bound stated).",
        design="3 C09",
        technique=TECH_M + " (relational: cached vs uncached twin)",
    ),
    C10=dict(
        category="model_checking",
        text="render(), str(), draw() (still and animated) and RenderIterator histories (next, seek, close, drop reference, "
        "_from_render_data_ with and without ownership) run on an instrumented renderable; the index of the failing frame render is a "
        "z3 variable (the engine forks at every render), the failure kind and the outcome of size validation are solver-chosen. At the "
        "end of every path each library-owned RenderData was finalized exactly once, caller-owned data never, no _render_ saw finalized "
        "data, finished iterators stop and reject control operations; cached and uncached iterators; data is not finalized while its "
        "iterator is still open.",
        note="Trusted: CPython reference counting for __del__, z3, engine. Finalization is demanded when the operation ends or fails, "
        "not deferred to garbage collection of data the caller never received.",
        design="3 C10",
        technique=TECH_M + " with a symbolic fault index",
    ),
)

CHECKS.update(
    C19=dict(
        category="other",
        text="(A) z3's regular-expression theory compares the acceptance language of the two patterns of _check_format_spec (read from the "
        "current source) with the documented grammar: one query over a string of unbounded length. (B) The real _check_format_spec, "
        "_check_formatting, _get_style_format_spec, _check_style_format_spec and _check_style_args of the three styles run on strings "
        "of length <= 5 (quick) / 7 (thorough) whose characters are z3 integers over printable ASCII, with the compiled patterns "
        "replaced by a backtracking matcher over the same sre_parse trees; a reference parser written from the documentation runs on the "
        "same characters; acceptance, error type, alignment, padding size, alpha, style arguments and the draw()-parameter equivalence are "
        "unsat queries per path. (C) representative specifiers used three times under three symbolic terminal sizes with rejected "
        "specifiers in between: the meaning depends only on the specifier and the terminal size at the time of use.",
        note="Trusted: z3 (sequence/regex theory), the symbolic matcher sx/rx.py (differentially tested against re on every run), the "
        "reference parser (harness/C19.py, from docs/source/guide/formatting.rst). Strings longer than the bound are covered by (A) only.",
        design="3 C19",
        technique="z3 regular-expression equivalence (unbounded) + bounded symbolic execution of the real parsing code over symbolic characters",
    ),
)

CHECKS.update(
    C20=dict(
        category="model_checking",
        text="User subclass trees (chain, fork) under KittyImage / ITerm2Image are created at run time; histories of set/unset operations on "
        "any class or instance (target, action and value kind are solver-forked selectors; JPEG quality and the native-animation limit are "
        "z3 integers validated symbolically by the real setters) are applied to the real descriptors / metaclass properties and to a "
        "dictionary-per-node model of 'own value, else nearest ancestor, else default'. After every operation every node's effective "
        "value is compared with the model, rejected operations must raise the documented error type and change nothing; a real render "
        "shows that the method in use is the per-call override or the effective method.",
        note="Trusted: the inheritance model in harness/C20.py, z3, engine. Trees of 3 classes, one instance per class, histories of the "
        "stated length, one setting at a time.",
        design="3 C20",
        technique=TECH_M,
    ),
)

CHECKS.update(
    C16=dict(
        category="other",
        text="A pool of render classes (chain of 3 plus a sibling) is created at run time for eight subsets of classes owning an argument "
        "namespace. Target class, kind/class of the initial set, the classes of up to two namespaces and up to two further operations "
        "(update in both forms, convert, |, reflected |, unary +) are solver-forked selectors; every field value is a z3 integer. Acceptance "
        "and error type, the value held per class (last namespace, else initial set, else default), eq => equal hash (hash lifted to "
        "uninterpreted functions over structure), membership, and 'no pre-existing object changed' (snapshots of all live objects incl. "
        "interned defaults) are unsat queries per path; metaclass rejections are enumerated offending class bodies.",
        note="Trusted: z3, engine, the precedence oracle in harness/C16.py. Class pools beyond 4 classes / 1 field per namespace and longer "
        "operation sequences are outside the claim.",
        design="3 C16",
        technique=TECH_S + "; selector-forked operation sequences",
    ),
)

CHECKS.update(
    C17=dict(
        category="other",
        text="(1) _ti_calc_trim on unbounded z3 integers: conservation and non-negativity. (2) The real UrwidImageCanvas is built from the real "
        "split-cell block render (symbolic pixel colours / alpha classes) and the real _format_render padding; content() runs for every "
        "sub-rectangle (solver-forked selectors); every yielded row is interpreted on the terminal model with a symbolic probe column and "
        "must occupy exactly `cols` columns, show the same half-cell colours as the untrimmed canvas at the shifted position and end with "
        "attributes reset. (3) graphics canvases: vertical trim selects the matching lines, horizontal trim yields blanks. (4) rows() == "
        "render().rows() for symbolic widths / source sizes / cell ratios.",
        note="Trusted: terminal model, z3, engine; urwid's own compositing. Canvas geometry enumerated (image 1-3 cells x 1-2 lines, padding "
        "0-2 per side); floats in (4) relaxed to reals with relative error.",
        design="3 C17",
        technique=TECH_S + "; terminal-model comparison of trimmed vs. untrimmed canvas rows",
    ),
)

CHECKS.update(
    C15=dict(
        category="model_checking",
        text="The real get_cell_size (per-terminal-size cache), cached / terminal_size_cached, the query and window-size-swap toggles, "
        "set_cell_ratio / get_cell_ratio and the memoized terminal-identity getters (incl. TextImage._is_on_kitty) run on a symbolic terminal "
        "whose size in cells and pixels are z3 integers (fresh ones at every resize). Histories of k operations chosen by solver-forked "
        "selectors; after every getter the value must equal a fresh computation for the current size and settings, memoized bodies run at "
        "most once until invalidated, results from a period with queries disabled are discarded on re-enabling. Concurrent first calls: "
        "the wrapper of utils.cached is translated from the current source into a micro-op program and every interleaving of 2-3 (4) "
        "caller threads with solver-chosen argument tuples and an optional invalidating thread is decided by a z3 finite-domain BMC query "
        "(body never runs twice for one tuple); schedules found are replayed on the real decorator with real threads.",
        note="Trusted: z3, engine, environment stubs (terminal size, TIOCGWINSZ, query_terminal). Integer quotients are uninterpreted "
        "(the property is about staleness, not arithmetic). Pixel size may change only together with the size in cells relative to the "
        "library's last evaluation (documented caching per terminal size). Interleaving part: re-entrant mutex model of threading.RLock, "
        "granularity = lock operations / cache accesses / body entry and exit; terminal_size_cached's wrapper is not in the interleaving model.",
        design="3 C15",
        technique=TECH_M,
    ),
)

CHECKS.update(
    C12=dict(
        category="other",
        text="The real query functions (query_terminal, the byte-wise read_tty loop, get_fg_bg_colors, get_terminal_name_version, "
        "get_cell_size, x_parse_color, the is_supported() rules and auto_image_class) run against a pty/terminal model: which queries "
        "are answered, the arrival delays (integer ticks whose sum is below the timeout), the colour components (symbolic hex digits, "
        "1-4 per component), ST vs BEL, cell-size reply digits, ioctl pixel size and win-size swap are z3 variables / forked selectors; "
        "terminal identities and versions are enumerated around the documented thresholds. Reported values, support flags, style "
        "preference, 'no reply byte left unread', bounded waiting and fallbacks are unsat queries per path.",
        note="Trusted: the pty model harness/pty_model.py (replies are units, in order; time advances only in select()), the symbolic "
        "regex matcher, z3, engine. Replies split in the middle of a unit and real pty timing are outside the claim.",
        design="3 C12",
        technique=TECH_S + "; pty model with symbolic arrival instants and symbolic reply characters",
    ),
    C13=dict(
        category="fault_enumeration",
        text="query_terminal, read_tty (all timeout/min/echo modes, raising predicate), get_fg_bg_colors and Renderable.draw (echo "
        "suppression, still and animated) run against the termios model with a fully symbolic initial attribute vector. A z3 integer "
        "selects the system call (tcgetattr, tcsetattr, write, tcdrain, select, read, stream write/flush, frame render) at which "
        "KeyboardInterrupt or OSError is raised, before or after the call took effect: the engine forks at every call, so every fault "
        "position is covered. On every path out of the operation the attribute vector must equal the initial one component-wise.",
        note="Trusted: termios/pty model, z3, engine. Faults 'before the effect' of the restoring tcsetattr itself are excluded (no Python "
        "code can survive a signal inside its own final clean-up call).",
        design="3 C13",
        technique=TECH_S + "; solver-owned fault index over system-call boundaries",
    ),
)

CHECKS.update(
    C06=dict(
        category="other",
        text="The real Renderable.draw/_animate_/_init_render_ (with the real RenderIterator and Padding) and the real BaseImage.draw/"
        "_renderer/_display_animated/_format_render (with the real ImageIterator) write into a recording stream; frames are glyph boxes of "
        "symbolic width. Render width, padding width, terminal size, the initial cursor row (incl. rows that force scrolling), TTY-ness "
        "and the flags are z3 variables; frame count, loops, render height and vertical padding are enumerated. The stream is interpreted "
        "by the terminal model with scroll tracking and a symbolic probe cell: last frame exactly where the first was drawn, padding "
        "blank, everything else untouched, cursor at column 0 of the line below, visible, attributes reset, scrolled exactly as needed; "
        "size validation raises the documented error iff the documented rule says so, with nothing written (aligned and exact padding). "
        "Part kitty_clearing: a two-frame animation through the real kitty draw path (draw, _display_animated, _clear_frame, clear, "
        "_render_image) for four terminal versions around the 0.25.0 boundary; the terminal model decides which placements survive the "
        "delete commands: exactly the last frame's. Part iterm2_anim: the real iterm2 animated draw (WHOLE) on iterm2 / wezterm / konsole "
        "with padding on the terminal model.",
        note="Trusted: terminal model, z3, engine. Frames are abstract glyph boxes (C01 gives the box contract for the real styles); "
        "frame count <= 3, loops <= 2, height <= 3, vertical padding <= 3 (enumerated); cursor starts at column 0.",
        design="3 C06",
        technique=TECH_S + "; terminal-model oracle with scroll tracking and a symbolic probe cell",
    ),
    C07=dict(
        category="fault_enumeration",
        text="The draw() harness of C06 with a solver-owned fault: a z3 integer selects the stream operation (write / flush / sleep / frame "
        "render) before draw()'s own clean-up at which Ctrl-C or an exception is raised (the engine forks at every operation), and the "
        "interrupted write delivers a solver-chosen prefix (cut at every part boundary and inside every control sequence). Both APIs, "
        "still and animated, block / kitty / iterm2 frame kinds. On return or raise: cursor visible, attributes reset, no control string "
        "or chunked transmission left open (terminal model), termios vector restored, render data finalized, image size and current "
        "frame unchanged, animations swallow Ctrl-C, stills propagate it.",
        note="Trusted: terminal model, termios model, z3, engine. The start of draw()'s own clean-up is located by a fault-free dry run; "
        "frames are stand-ins containing each style's control-string kinds; 2 frames, heights 1-2 (3 in thorough).",
        design="3 C07",
        technique=TECH_S + "; solver-owned fault index and cut point over stream operations",
    ),
)

CHECKS.update(
    C14=dict(
        category="model_checking",
        text="Bounded model checking by SMT: the synchronisation skeleton of lock_tty's wrapper, of the Process.start wrapper (lock hand-over) "
        "and of the Process.run wrapper (adoption in the child) is extracted from the current source with ast; scenarios (2-3 threads, a "
        "start racing with calls, children, a grandchild, nested re-entrant calls; fork and spawn) are unrolled for K scheduler steps into a "
        "finite-domain z3 transition relation (program counters, per-thread lock temporaries and held-lock stacks, per-process globals, "
        "lock owner/count) with one scheduler-choice variable per step; K covers every complete interleaving of the scenario. Queries: "
        "no reachable state has two agents inside synchronized bodies; no reachable state is a deadlock. Which of the documented entry "
        "points (query_terminal, read_tty, write_tty, UrwidImageScreen.draw_screen/flush/get_available_raw_input/write) are wrapped is read "
        "from the source; each runs against a synchronized query in its own scenario. The module-level discovery block (which installs the "
        "Process hooks) is executed on a copy of the module for every way a terminal can be found. A sat trace is replayed on the real "
        "wrappers with real threads and instrumented locks under a controller enforcing the schedule.",
        note="Trusted: the environment model of threading/multiprocessing locks and process start (stated in the evidence), the ast "
        "skeleton extractor (fails loudly on unknown shapes), z3. Agents and steps bounded per scenario; real OS scheduling and "
        "multiprocessing internals are outside the claim.",
        design="3 C14",
        technique="SMT-based bounded model checking (z3 QF_FD) of the lock protocol extracted from the source, with schedule replay on real threads",
        engine="sx (Engine B)",
    ),
)

CHECKS.update(
    C18=dict(
        category="other",
        text="The library's own obligations, each on the real code: (a,b) UrwidImageScreen._ti_clear_images / draw_screen run on shard lists "
        "given as input (previous and next layout: solver-chosen arrangements of kitty, Konsole-iterm2 and text views with trims, widths, "
        "row spans and shard tails): recorded image views = an independent geometric reference; every kitty view no longer at its previous "
        "position/extent is deleted by z-index, a vanished Konsole iterm2 view triggers delete-all, unchanged views are not deleted, all "
        "deletes precede the base class' output; (c) begin/end synchronized-update bracket on every path incl. base-class failure and "
        "non-composite canvases; clearing on start/stop/clear; (d) z-index allocator: one inductive step from an arbitrary counter (z3 "
        "integer) and free set.",
        note="Trusted: urwid's construction of shards for real layouts and its line cache (defeated by the 'disguise' state) - 'placements on "
        "the terminal = images of the canvas just drawn' is covered only up to these; layouts of <= 2 shards x <= 2 views with geometry "
        "values 1..3; base-class methods are marker-writing stubs.",
        design="3 C18",
        technique=TECH_S + "; selector-forked layouts against a geometric reference, inductive step for the allocator",
    ),
)

CHECKS.update(
    C11=dict(
        category="other",
        text="The real rendering / iteration / construction code of the three styles (ImageIterator incl. _animate, _renderer, _get_image, "
        "_get_render_data, _display_animated, close, from_file, from_url, __format__, the three _render_image) runs against a resource "
        "model: Image.open hands out instrumented image doubles; every open / convert / resize / composite / encode step is a fault point "
        "selected by a z3 integer (the engine forks at every step); requests / mkstemp / os.remove are modelled. Source kind, mode, alpha "
        "kind, size relation, render method, operation (str/format, draw, partial or full iteration, early close, abandonment) are "
        "solver-forked selectors. Claims: every image the library opened is closed and none used after closing, a caller's image never "
        "closed, iterated frames = per-frame formatting, tell() tracking, size setting unchanged, URL temp file lifetime.",
        note="Resource model instead of real file descriptors / HTTP / PIL file handling (a leak inside PIL itself would not be seen); "
        "closing must be explicit (not left to garbage collection); images are 1x1 cells, 2-3 frames.",
        design="3 C11",
        technique=TECH_S + "; resource model with a solver-owned fault index",
    ),
)

PENDING = {}


def main():
    props = [json.loads(l) for l in open(os.path.join(VERIF, "properties.jsonl"))]
    checks = []
    na = []
    for p in props:
        pid = p["id"]
        c = CHECKS.get(pid)
        if c is None:
            na.append({"property_id": pid, "reason": PENDING.get(pid, "check not built yet (work in progress; see DESIGN.md section 3)")})
            continue
        checks.append(
            {
                "property_id": pid,
                "quick_cmd": f"./run {pid} --tier quick",
                "thorough_cmd": f"./run {pid} --tier thorough",
                "evidence_file": f"/verif/evidence/{pid}.json",
                "replay_cmd_template": f"./run {pid} --replay {{path}}",
                "engine": c.get("engine", "sx"),
                "level_claimed": {"category": c["category"], "text": c["text"], "design_ref": "DESIGN.md " + c["design"]},
                "level_note": c["note"],
                "technique": c["technique"],
            }
        )
    m = {
        "version": 1,
        "setup_cmd": "./setup.sh",
        "hooks": {
            "guard": "TERM_IMAGE_VERIF",
            "enable": "no source hooks are needed: checks import /repo/src through an import hook that recompiles the current sources (sx/lifting.py) and monkey-patch module globals",
            "baseline_off_cmd": "cd /repo && /venv/bin/python -m pytest -ra -q -p no:cacheprovider --timeout=900 --continue-on-collection-errors",
            "source_commits": [],
            "add_only": True,
        },
        "engines": [
            {
                "name": "sx",
                "path": "/verif/sx",
                "serves_properties": sorted(CHECKS),
                "kind_free_text": "proxy-based symbolic executor for the real Python code (AST-lifted on import from the current sources) + z3; terminal model oracle; CrossHair / z3 regex / SMT-BMC side engines",
            }
        ],
        "checks": checks,
        "not_applicable": na,
        "notes": "Every check re-reads /repo (or $TERM_IMAGE_REPO) sources on each run. Exit 0 = all decided queries unsat; 1 = VIOLATION (replayed on the unmodified code); 3 = harness error. known_findings.json lists recorded findings and fixes.",
    }
    json.dump(m, open(os.path.join(VERIF, "MANIFEST.json"), "w"), indent=1)
    print("MANIFEST.json:", len(checks), "checks,", len(na), "not applicable")


if __name__ == "__main__":
    main()
