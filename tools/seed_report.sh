#!/bin/sh
# tools/seed_report.sh [names...] - for every seeded change: re-confirm it on the current /repo HEAD (patch applies, test-suite
# matches the baseline, demo passes on /repo and fails on the patched tree) and run the property's quick check against it.
# Writes seeded/<name>/result.txt and prints a summary table.
cd /verif
NAMES=${*:-$(ls -d seeded/*-* | xargs -n1 basename)}
for n in $NAMES; do
  P=$(echo $n | cut -d- -f1)
  D=$(mktemp -d /tmp/sr.XXXXXX)
  git -C /repo worktree add --detach -f "$D/repo" HEAD >/dev/null 2>&1
  if ! (cd "$D/repo" && git apply "/verif/seeded/$n/patch.diff" 2>/dev/null); then
    echo "$n: PATCH DOES NOT APPLY to HEAD" | tee seeded/$n/result.txt
    git -C /repo worktree remove --force "$D/repo"; rm -rf "$D"; continue
  fi
  T=$(cd "$D/repo" && PYTHONPATH="$D/repo/src" /venv/bin/python -m pytest -q -p no:cacheprovider --continue-on-collection-errors --deselect tests/test_image/test_url.py 2>&1 | tail -1)
  TERM_IMAGE_SRC=/repo/src /venv/bin/python seeded/$n/demo.py >/dev/null 2>&1; A=$?
  TERM_IMAGE_SRC="$D/repo/src" /venv/bin/python seeded/$n/demo.py >/dev/null 2>&1; B=$?
  S=$(date +%s)
  OUT=$(TERM_IMAGE_REPO="$D/repo" ./run $P --tier quick 2>&1); RC=$?
  E=$(( $(date +%s) - S ))
  V=$(echo "$OUT" | grep -c "^VIOLATION")
  FIRST=$(echo "$OUT" | grep "violated claim" | head -1 | cut -c1-160)
  {
    echo "seed: $n"; echo "tests on patched tree: $T"; echo "demo exit on /repo: $A ; on patched tree: $B"
    echo "check: ./run $P --tier quick  -> exit $RC, $V VIOLATION line(s), ${E}s"; echo "first: $FIRST"
  } > seeded/$n/result.txt
  echo "$n tests=[$(echo $T | sed 's/=//g' | cut -c1-40)] demo=$A/$B check_exit=$RC violations=$V time=${E}s"
  rm -f replays/${P}_quick_*.json
  git -C /repo worktree remove --force "$D/repo"; rm -rf "$D"
done
