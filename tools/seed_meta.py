#!/usr/bin/env python3
"""seeded/<name>/meta.json from the sub-agent's meta + the confirmation / check results."""
import glob, json, os, re
V = os.path.dirname(os.path.dirname(os.path.abspath(__file__)))
STRENGTH = json.load(open(os.path.join(V, "seeded", "strengthening.json")))
for dd in sorted(glob.glob(os.path.join(V, "seeded", "*-*"))):
    name = os.path.basename(dd)
    agent = {}
    p = os.path.join(dd, "meta.agent.json")
    if os.path.exists(p):
        try:
            agent = json.load(open(p))
        except Exception:
            agent = {"raw": open(p).read()[:2000]}
    res = open(os.path.join(dd, "result.txt")).read() if os.path.exists(os.path.join(dd, "result.txt")) else ""
    pid = name.split("-")[0]
    meta = {
        "property": pid,
        "origin": "fresh sub-agent given only the property text and its own scratch worktree of /repo (nothing from /verif)",
        "summary": agent.get("summary"),
        "needs_to_manifest": agent.get("needs_to_manifest", agent.get("needs")),
        "files_changed": agent.get("files_changed"),
        "confirmed_by": [
            "tools/verify_seed.sh / tools/seed_report.sh: fresh worktree of /repo HEAD + patch.diff",
            "test-suite: cd <worktree> && PYTHONPATH=<worktree>/src /venv/bin/python -m pytest -q -p no:cacheprovider --continue-on-collection-errors --deselect tests/test_image/test_url.py  (must equal the baseline: 1178 passed, 1 pre-existing collection error)",
            "demo: TERM_IMAGE_SRC=/repo/src /venv/bin/python demo.py (exit 0)  and  TERM_IMAGE_SRC=<worktree>/src /venv/bin/python demo.py (exit != 0)",
            f"check: TERM_IMAGE_REPO=<worktree> ./run {pid} --tier quick (expected: exit 1 with reproduced VIOLATION lines)",
        ],
        "history": STRENGTH.get(name, {"first_run": "caught by the check as it stood"}),
        "last_result": res.strip().splitlines(),
        "note": "patch.diff applies to the /repo HEAD at the time of the last result (some patches were re-created on top of later fix: commits; the change itself is the sub-agent's)",
    }
    json.dump(meta, open(os.path.join(dd, "meta.json"), "w"), indent=1)
print("meta.json written for", len(glob.glob(os.path.join(V, "seeded", "*-*"))), "seeds")
