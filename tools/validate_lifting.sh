#!/bin/sh
# Translator validation: run the repository's own test-suite against the *lifted* modules
# (the AST-rewritten copies Engine S executes).  Expected: same result as the baseline (1178 passed).
set -e
V=$(cd "$(dirname "$0")/.." && pwd)
[ -d "$V/.venv" ] || "$V/setup.sh"
REPO=${TERM_IMAGE_REPO:-/repo}
cd "$REPO"
PYTHONPATH=$V exec "$V/.venv/bin/python" -m pytest -q -p no:cacheprovider -p sx.pytest_plugin --continue-on-collection-errors "$@"
