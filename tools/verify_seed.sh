#!/bin/sh
# tools/verify_seed.sh <seed dir> <name>  - confirm a sub-agent's seeded change independently, then store it under seeded/<name>/
# (fresh worktree of /repo HEAD + patch; test-suite must match the baseline; demo must pass on /repo and fail on the patched tree)
SRC=$1; NAME=$2
D=$(mktemp -d /tmp/vs.XXXXXX)
git -C /repo worktree add --detach -f "$D/repo" HEAD >/dev/null 2>&1
cd "$D/repo" || exit 2
if ! git apply "$SRC/patch.diff"; then echo "PATCH DOES NOT APPLY"; git -C /repo worktree remove --force "$D/repo"; rm -rf "$D"; exit 2; fi
T=$(PYTHONPATH="$D/repo/src" /venv/bin/python -m pytest -q -p no:cacheprovider --continue-on-collection-errors --deselect tests/test_image/test_url.py 2>&1 | tail -1)
echo "tests(patched): $T"
cp "$SRC/demo.py" "$D/demo.py"
TERM_IMAGE_SRC=/repo/src /venv/bin/python "$D/demo.py" >/dev/null 2>&1; A=$?
TERM_IMAGE_SRC="$D/repo/src" /venv/bin/python "$D/demo.py" > "$D/demo.out" 2>&1; B=$?
echo "demo on /repo: exit $A ; demo on patched: exit $B"; tail -3 "$D/demo.out"
OK=no
case "$T" in *"1178 passed"*"1 error"*) [ "$A" = 0 ] && [ "$B" != 0 ] && OK=yes;; esac
echo "confirmed: $OK"
if [ "$OK" = yes ]; then
  mkdir -p /verif/seeded/$NAME
  cp "$SRC/patch.diff" "$SRC/demo.py" /verif/seeded/$NAME/
  cp "$SRC/meta.json" /verif/seeded/$NAME/meta.agent.json 2>/dev/null
fi
git -C /repo worktree remove --force "$D/repo"; rm -rf "$D"
