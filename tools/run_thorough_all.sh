#!/bin/sh
# tools/run_thorough_all.sh [ids...] - run every thorough command end-to-end once, log wall time and the summary line
cd "$(dirname "$0")/.."
IDS=${*:-01 02 03 04 05 06 07 08 09 10 11 12 13 14 15 16 17 18 19 20}
mkdir -p /tmp/thorough
for i in $IDS; do
  s=$(date +%s)
  VERIF_SEED=1 timeout 5400 ./run C$i --tier thorough > /tmp/thorough/C$i.txt 2>&1; rc=$?
  echo "C$i exit=$rc $(( $(date +%s) - s ))s :: $(grep "^C$i \[" /tmp/thorough/C$i.txt | cut -c1-220)"
  grep "^HARNESS-ERROR\|^VIOLATION\|^KNOWN" /tmp/thorough/C$i.txt | cut -c1-300 | head -5
done
