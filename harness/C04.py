"""C04 - automatic sizing fits the frame, fills it, preserves aspect ratio."""
from __future__ import annotations

import os

import z3

from sx import core
from sx.core import rterm, sym_and, sym_implies, sym_not, sym_or, term
from sx.driver import Check

EPS = z3.RealVal(1) / (2**30)  # slack for double rounding in the "< 1 cell" claims


class TS(tuple):
    """Stand-in for os.terminal_size holding (possibly symbolic) ints."""

    columns = property(lambda s: s[0])
    lines = property(lambda s: s[1])


def _abs(x):
    return z3.If(x >= 0, x, -x)


class C04(Check):
    id = "C04"
    level = "other"
    functions = [
        "term_image.image.common:BaseImage._valid_size",
        "term_image.image.common:BaseImage._width_height_px",
        "term_image.image.common:BaseImage.set_size",
        "term_image.image.common:BaseImage._renderer",
        "term_image.image.common:GraphicsImage._pixels_cols",
        "term_image.image.common:GraphicsImage._pixels_lines",
        "term_image.image.block:BlockImage._pixels_cols",
        "term_image.image.block:BlockImage._pixels_lines",
    ]
    explanation = (
        "The real BaseImage._valid_size / set_size / _renderer (text family through BlockImage, graphics "
        "family through KittyImage) are executed by CPython on proxy values: original size, terminal size, "
        "frame size (absolute or relative), cell ratio / cell size and the given width/height are z3 "
        "variables.  Every feasible path is explored; on each path every clause of the property is one z3 "
        "query 'path condition AND NOT clause' and must be unsat.  Floats are a sound real relaxation "
        "(each operation has relative error <= 2^-53); a sat model is replayed on the unmodified code."
    )
    assumptions = [
        "IEEE doubles modelled as reals with per-operation relative error <= 2^-53 (no overflow/underflow: all magnitudes <= the stated bound)",
        "round() may return either neighbour at an exact tie (superset of round-half-even)",
        "'differs by less than one cell' is checked with slack 2^-30 for double rounding",
        "AUTO oracle: 'fits' is decided on exact reals; inside the half-pixel rounding band either ORIGINAL or FIT is accepted",
        "graphics family: cell sizes enumerated over a stated grid (nonlinear integer division by a symbolic cell size is outside z3's reach)",
        "terminal size / cell size / cell ratio getters replaced by stubs returning the symbolic values",
    ]
    bounds = {
        "quick": {"magnitude": 2**12, "cell_ratio": "[1/32, 8]", "cell_sizes": [[1, 2], [8, 16], [9, 18], [10, 7]]},
        "thorough": {"magnitude": 2**20, "cell_ratio": "[1/32, 8]", "cell_sizes": [[1, 1], [1, 2], [2, 1], [5, 11], [8, 16], [9, 18], [10, 20], [10, 7], [16, 16], [13, 29]]},
    }
    max_paths = 400
    relaxed_floats = True

    def shapes(self, tier):
        modes = ["FIT", "AUTO", "ORIGINAL", "FIT_TO_WIDTH", "width", "height", "both"]
        B = self.bounds[tier]["magnitude"]
        out = [{"family": "text", "mode": m, "B": B} for m in modes]
        for cs in self.bounds[tier]["cell_sizes"]:
            out += [{"family": "graphics", "mode": m, "cell": cs, "B": B} for m in modes]
        out.append({"family": "graphics", "mode": "FIT", "cell": None, "B": B})
        for dm in ("FIT", "AUTO", "ORIGINAL", "FIT_TO_WIDTH"):
            out.append({"family": "text", "mode": "dynamic", "dyn": dm, "B": B})
            out.append({"family": "graphics", "mode": "dynamic", "dyn": dm, "cell": self.bounds[tier]["cell_sizes"][-1], "B": B})
        return out

    def budget(self, tier):
        return (100, 15000) if tier == "quick" else (1500, 120000)

    def setup(self, shape, concrete):
        from PIL import Image

        import term_image
        from term_image.image import BlockImage, KittyImage, common

        self.common = common
        self.Size = common.Size
        KittyImage._supported = True
        cls = BlockImage if shape["family"] == "text" else KittyImage
        self.mk = lambda: cls(Image.new("RGB", (1, 1)), width=1, height=1)
        self.term_image = term_image

    def env(self, eng, shape, suffix=""):
        B = shape["B"]
        tc, tl = eng.int("tcols" + suffix, 1, B), eng.int("tlines" + suffix, 1, B)
        self.common.get_terminal_size = lambda: TS((tc, tl))
        if shape["family"] == "text":
            cr = eng.real("cell_ratio" + suffix, z3.RealVal(1) / 32, 8)
            self.common.get_cell_ratio = lambda: cr
            return tc, tl, cr, None
        cell = shape.get("cell")
        cs = tuple(cell) if cell else None
        self.common.get_cell_size = lambda: cs
        return tc, tl, None, cs or (1, 2)

    def body(self, eng, shape):
        S = self.Size
        img = self.mk()  # a fresh image object per path (nothing an instance memoizes may leak between paths)
        B = shape["B"]
        mode = shape["mode"]
        ow, oh = eng.int("ow", 1, B), eng.int("oh", 1, B)
        img._original_size = (ow, oh)
        tc, tl, cr, cs = self.env(eng, shape)
        text = shape["family"] == "text"
        # pixel geometry per family, as exact reals
        if text:
            pr = rterm(cr) * 2  # width/height ratio of a pixel
            ppc, ppl = z3.RealVal(1), z3.RealVal(2)  # pixels per column / per line
        else:
            pr = z3.RealVal(1)
            ppc, ppl = z3.RealVal(cs[0]), z3.RealVal(cs[1])
        OW, OH = rterm(ow), rterm(oh)

        def near(cells, exact_cells, name):
            """|cells - exact| < 1, or clamped to 1 when the exact value is below 1."""
            c = rterm(cells)
            eng.claim(name, z3.Or(_abs(c - exact_cells) < 1 + EPS, z3.And(term(cells) == 1, exact_cells < 1 + EPS)))

        if mode in ("FIT", "AUTO", "ORIGINAL", "FIT_TO_WIDTH", "dynamic"):
            fw, fh = eng.int("frame_w", -B, B), eng.int("frame_h", -B, B)
            cols = core.sym_if(fw > 0, fw, core.sym_if(tc + fw > 1, tc + fw, 1))
            lines = core.sym_if(fh > 0, fh, core.sym_if(tl + fh > 1, tl + fh, 1))
            FW, FH = rterm(cols) * ppc, rterm(lines) * ppl  # frame in pixels
            s_fit = z3.If(FW / OW < FH / (OH * pr), FW / OW, FH / (OH * pr))
        if mode == "dynamic":
            # dynamic size follows the environment; _renderer restores the enum member
            m = getattr(S, shape["dyn"])
            img.size = m
            seen = img._renderer(lambda im: img._size)
            eng.claim("dynamic: size restored to the enum after a render", img.size is m)
            fresh = img._valid_size(m, None)
            eng.claim("dynamic: render uses a fresh evaluation", sym_and(seen[0] == fresh[0], seen[1] == fresh[1]))
            tc2, tl2, cr2, _ = self.env(eng, shape, "_2")
            rs = img.rendered_size
            # what a brand-new image object computes in the new environment (the warm one must not lag behind)
            other = self.mk()
            other._original_size = (ow, oh)
            fresh2 = other._valid_size(m, None)
            eng.claim("dynamic: rendered_size follows a later terminal/ratio change", sym_and(rs[0] == fresh2[0], rs[1] == fresh2[1]))
            raised = False
            try:
                img._renderer(lambda im: 1 // 0)
            except ZeroDivisionError:
                raised = True
            eng.claim("dynamic: size restored after a failing render", raised and img.size is m)
            # the render fails before the renderer runs: the source cannot be opened
            raised = False

            def gone():
                raise FileNotFoundError("source vanished")

            img._get_image = gone
            try:
                img._renderer(lambda im: None)
            except FileNotFoundError:
                raised = True
            finally:
                del img._get_image
            eng.claim("dynamic: size restored after a render whose source could not be opened", raised and img.size is m)
            eng.reachable()
            eng.observe("rendered_size", (rs[0], rs[1]))
            return
        if mode in ("FIT", "AUTO", "ORIGINAL", "FIT_TO_WIDTH"):
            w, h = img._valid_size(getattr(S, mode), None, (fw, fh))
            eng.observe("size", (w, h))
            eng.reachable()
            eng.claim("positive integers", sym_and(w >= 1, h >= 1))
            if mode in ("FIT", "AUTO"):
                eng.claim(f"{mode}: within the frame", sym_and(w <= cols, h <= lines))
            if mode == "FIT":
                eng.claim("FIT: touches the frame on one axis", sym_or(w == cols, h == lines))
                near(w, OW * s_fit / ppc, "FIT: width within one cell of the exact aspect-preserving value")
                near(h, OH * pr * s_fit / ppl, "FIT: height within one cell of the exact aspect-preserving value")
            if mode == "FIT_TO_WIDTH":
                eng.claim("FIT_TO_WIDTH: exactly the frame width", w == cols)
                near(h, (FW / OW) * OH * pr / ppl, "FIT_TO_WIDTH: height within one cell of exact")
            if mode == "ORIGINAL":
                near(w, OW / ppc, "ORIGINAL: width is the source width in cells")
                near(h, OH * pr / ppl, "ORIGINAL: height within one cell of exact")
            if mode == "AUTO":
                wo, ho = img._valid_size(S.ORIGINAL, None, (fw, fh))
                wf, hf = img._valid_size(S.FIT, None, (fw, fh))
                is_o = z3.And(term(w) == term(wo), term(h) == term(ho))
                is_f = z3.And(term(w) == term(wf), term(h) == term(hf))
                eng.claim("AUTO: equals ORIGINAL or FIT", z3.Or(is_o, is_f))
                fits = z3.And(OW <= FW, OH * pr <= FH)
                clearly_not = z3.Or(OW > FW, OH * pr > FH + z3.RealVal(1) / 2 + EPS)
                eng.claim("AUTO: ORIGINAL when the scaled source fits", z3.Implies(fits, is_o))
                eng.claim("AUTO: FIT when it does not fit", z3.Implies(clearly_not, is_f))
            return
        # a given width and/or height
        gw = eng.int("given_w", 1, B) if mode in ("width", "both") else None
        gh = eng.int("given_h", 1, B) if mode in ("height", "both") else None
        img.set_size(gw, gh)
        eng.reachable()
        w, h = img.size
        eng.observe("size", (w, h))
        eng.claim("positive integers", sym_and(w >= 1, h >= 1))
        if gw is not None:
            eng.claim("given width kept exactly", w == gw)
        if gh is not None:
            eng.claim("given height kept exactly", h == gh)
        if mode == "width":
            near(h, (rterm(gw) * ppc / OW) * OH * pr / ppl, "width given: height within one cell of exact")
        if mode == "height":
            near(w, (rterm(gh) * ppl / OH) * OW / pr / ppc, "height given: width within one cell of exact")
        # fixed sizes are stored unchanged whatever the environment does afterwards
        self.env(eng, shape, "_2")
        seen = img._renderer(lambda im: img._size)
        eng.claim("fixed size unchanged by a later terminal/ratio change and render", sym_and(img.size[0] == w, img.size[1] == h, seen[0] == w, seen[1] == h))
        eng.claim("rendered_size equals the fixed size", sym_and(img.rendered_size[0] == w, img.rendered_size[1] == h))


CHECK = C04()
