"""C02 - block renders show exactly the image's pixels (colour and transparency)."""
from __future__ import annotations

import z3

from sx import core
from sx.core import SymBool, SymInt, term
from sx.driver import Check
from sx.term import BLANK, LOWER, UPPER, Colour

from . import common_render as cr


class SymPixel(tuple):
    """An (r, g, b) tuple of symbolic ints whose ==/!= are one solver term."""

    def _eq(self, o):
        if not isinstance(o, tuple) or len(o) != 3:
            return False
        return SymBool(z3.simplify(z3.And(*[term(a) == term(b) for a, b in zip(self, o)])))

    def __eq__(self, o):
        return self._eq(o)

    def __ne__(self, o):
        r = self._eq(o)
        return (not r) if isinstance(r, bool) else core.sym_not(r)

    __hash__ = None


def block_render(check, eng, shape, split_cells=False):
    """Run the real BlockImage._render_image on symbolic pixels; feed the output to the
    terminal model.  Returns (out, geometry, term, width, height)."""
    img = check.img
    block, common = check.mods["block"], check.mods["common"]
    w, rh = shape["width"], shape["r_height"]
    img._size = (w, rh)
    mode = shape["mode"]
    n = w * 2 * rh
    conc = eng.concrete is not None
    rgb = []
    for k in range(n):
        px = (eng.int(f"r{k}", 0, 255), eng.int(f"g{k}", 0, 255), eng.int(f"b{k}", 0, 255))
        rgb.append(px if conc else SymPixel(px))
    if mode == "RGBA":
        if conc:
            a = [0 if eng.bool(f"transparent{k}") else 255 for k in range(n)]
        else:
            a = [SymInt(z3.If(eng.bool(f"transparent{k}").e, z3.IntVal(0), z3.IntVal(255))) for k in range(n)]
    else:
        a = [255] * n
    bg_known = eng.bool("terminal_bg_known")
    if bool(bg_known):
        bgc = (eng.int("bg_r", 0, 255), eng.int("bg_g", 0, 255), eng.int("bg_b", 0, 255))
    else:
        bgc = None
    on_kitty = eng.bool("on_kitty")
    block.get_fg_bg_colors = lambda **kw: (None, bgc)
    type(img)._is_on_kitty = staticmethod(lambda: on_kitty)
    fake = cr.FakeImg(eng, mode, (w, 2 * rh), "render")
    type(img)._get_render_data = lambda self_, im, alpha, **kw: (fake, rgb, a)
    out = img._render_image(cr.FakeImg(eng, mode, (w, 2 * rh), "source"), 0.5 if mode == "RGBA" else None, split_cells=split_cells)
    eng.reachable()
    t, g = cr.screen(eng, w, rh)
    t.feed(out).finish()
    check._pixels = (rgb, a, bgc, on_kitty)
    return out, g, t, w, rh


def pixel_claims(check, eng, shape, t, g, prefix=""):
    rgb, a, bgc, on_kitty = check._pixels
    w, rh = shape["width"], shape["r_height"]
    i, j = g["px"] - g["x0"], g["py"] - g["y0"]
    in_rect = z3.And(i >= 0, i < w, j >= 0, j < rh)

    def pick(vals, row_off):
        """value of the pixel shown in the probe cell's half (row_off 0 upper / 1 lower)"""
        e = None
        for jj in range(rh):
            for ii in range(w):
                v = vals[(2 * jj + row_off) * w + ii]
                e = v if e is None else z3.If(z3.And(i == ii, j == jj), v, e)
        return e

    for half, row_off, uses_fg in (("upper", 0, UPPER), ("lower", 1, LOWER)):
        shown = t.p_fg.sel(t.p_glyph == uses_fg, t.p_bg)
        r = pick([term(p[0]) for p in rgb], row_off)
        gg = pick([term(p[1]) for p in rgb], row_off)
        b = pick([term(p[2]) for p in rgb], row_off)
        al = pick([term(x) for x in a], row_off)
        exact = shown.is_rgb(r, gg, b)
        if bgc is not None:
            same_as_bg = z3.And(r == term(bgc[0]), gg == term(bgc[1]), b == term(bgc[2]))
            tweaked = z3.And(
                core._boolterm(on_kitty), same_as_bg, z3.Not(shown.d), shown.g == gg, shown.b == b,
                shown.r == z3.If(r < 255, r + 1, r - 1),
            )
        else:
            tweaked = z3.BoolVal(False)
        eng.claim(f"{prefix}{half} half: opaque pixel shows its RGB value (kitty workaround: red +-1 only when equal to the terminal background)",
                  z3.Implies(z3.And(in_rect, al != 0), z3.Or(exact, tweaked)))
        eng.claim(f"{prefix}{half} half: transparent pixel shows the terminal's own background",
                  z3.Implies(z3.And(in_rect, al == 0), shown.d))
    eng.claim(prefix + "cell glyph is blank or a half block", z3.Implies(in_rect, z3.Or(t.p_glyph == BLANK, t.p_glyph == UPPER, t.p_glyph == LOWER)))


class C02(Check):
    id = "C02"
    level = "other"
    functions = [
        "term_image.image.block:BlockImage._render_image",
        "term_image.image.common:BaseImage._get_render_data",
    ]
    explanation = (
        "(a) The real BlockImage._render_image (run-length colour clusters) is executed on symbolic pixel data at render "
        "resolution: every colour channel is a z3 Int in 0..255, every alpha class a z3 Bool, terminal background known/unknown "
        "and the kitty workaround flag symbolic; width and height in cells are enumerated.  The output term is interpreted by "
        "the terminal model; for ONE symbolic probe cell the upper/lower half colours shown must equal the two source pixels "
        "(unsat query per path and clause).  (b) The real BaseImage._get_render_data runs on a recording image double whose "
        "PIL operations are uninterpreted functions; the returned pixel/alpha terms must be the documented pipeline."
    )
    assumptions = [
        "terminal model sx/term.py: space shows the background in both halves, upper/lower half block shows foreground in that half and background in the other",
        "PIL operations (convert, BOX resize, alpha_composite, putalpha, getdata) are trusted and modelled as uninterpreted functions in part (b)",
        "alpha values after rounding are 0 or 255 (that rounding itself is checked in part (b))",
    ]
    bounds = {
        # (width, lines, modes) of the rendered image in cells
        "quick": {"grids": [[1, 1, ["RGB", "RGBA"]], [2, 1, ["RGB", "RGBA"]], [1, 2, ["RGB", "RGBA"]], [3, 1, ["RGB"]]]},
        "thorough": {"grids": [[1, 1, ["RGB", "RGBA"]], [2, 1, ["RGB", "RGBA"]], [1, 2, ["RGB", "RGBA"]], [3, 1, ["RGB", "RGBA"]],
                               [2, 2, ["RGB", "RGBA"]], [4, 1, ["RGB", "RGBA"]], [1, 3, ["RGB", "RGBA"]], [5, 1, ["RGB"]], [3, 2, ["RGB"]]]},
    }
    max_paths = 60000

    def budget(self, tier):
        return (150, 20000) if tier == "quick" else (2400, 120000)

    def shapes(self, tier):
        b = self.bounds[tier]
        out = []
        for w, rh, modes in b["grids"]:
            for mode in modes:
                for sc in (False, True):
                    out.append({"part": "render", "width": w, "r_height": rh, "mode": mode, "split_cells": sc})
        from .C02b import pipeline_shapes

        return out + pipeline_shapes(tier)

    def setup(self, shape, concrete):
        from PIL import Image

        from term_image.image import BlockImage, block, common

        self.mods = dict(common=common, block=block)
        self.img = BlockImage(Image.new("RGB", (1, 1)), width=1, height=1)

    def body(self, eng, shape):
        if shape["part"] == "pipeline":
            from .C02b import pipeline_body

            return pipeline_body(self, eng, shape)
        out, g, t, w, rh = block_render(self, eng, shape, split_cells=shape["split_cells"])
        pixel_claims(self, eng, shape, t, g)
        cr.rect_claims(eng, t, g, w, rh, newlines=rh - 1)
        eng.observe("newlines", t.newlines)


CHECK = C02()
