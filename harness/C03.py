"""C03 - graphics renders transmit exactly the image, in well-formed protocol framing."""
from __future__ import annotations

import z3

from sx import core
from sx.core import term
from sx.driver import Check
from sx.tstr import Opq

from . import common_render as cr

I = z3.IntVal


def whole_piece(piece_list):
    """[Opq] that is one complete object -> (opq, condition 'complete'), else (None, False)."""
    pieces = [a for a in piece_list if isinstance(a, Opq)]
    if not pieces or len(pieces) != len(piece_list):
        return None, z3.BoolVal(False)
    p = pieces[0]
    # the first piece is the whole object; any further piece is (provably) empty
    return p, z3.And(p.start == 0, p.length == p.meta["total"], *[q.length == 0 for q in pieces[1:]])


class C03(Check):
    id = "C03"
    level = "other"
    functions = [
        "term_image.image.kitty:KittyImage._render_image",
        "term_image.image.kitty:Transmission.get_chunks",
        "term_image.image.kitty:Transmission.get_control_data",
        "term_image.image.kitty:Transmission.compress",
        "term_image.image.kitty:Transmission.__post_init__",
        "term_image.image.kitty:Transmission.get_payload",
        "term_image.image.kitty:ControlData.__post_init__",
        "term_image.image.iterm2:ITerm2Image._render_image",
        "term_image.image.common:GraphicsImage._get_render_size",
        "term_image.image.common:GraphicsImage._get_minimal_render_size",
    ]
    explanation = (
        "The real kitty / iterm2 _render_image, Transmission and ControlData run on proxy values; payload bytes are opaque "
        "objects with symbolic lengths whose slices (chunks, per-line strips) keep symbolic offsets.  zlib.compress, "
        "base64 and the PIL encoders are stubs returning fresh opaque objects that remember their source, so 'decoded, "
        "decompressed payload = pixels of the image at s x v' becomes a structural claim on provenance + offset arithmetic "
        "decided by z3: chunk slices tile the base64 text, strips tile tobytes(), size= equals the encoder output length, "
        "control keys carry the expected symbolic values, and the read-from-file gate is an iff."
    )
    assumptions = [
        "zlib/base64/PNG/JPEG are trusted: decompress(compress(x)) = x, b64decode(b64encode(x)) = x, len(b64encode(x)) = 4*ceil(len(x)/3)",
        "an encoder writes a non-empty opaque byte string of arbitrary length",
        "payload lengths bounded so that at most max_chunks chunks occur (the chunk loop is explored completely within that bound; larger payloads are outside the claim)",
        "cell sizes enumerated over a stated grid",
        "read-from-file oracle: the rule stated in the ITerm2Image.read_from_file / jpeg_quality documentation and the comments of the gate",
    ]
    bounds = {
        "quick": {"rendered_height": [1, 2, 3], "cell_sizes": [[9, 18]], "max_chunks": 3},
        "thorough": {"rendered_height": [1, 2, 3, 4, 5], "cell_sizes": [[1, 2], [9, 18], [10, 7]], "max_chunks": 5},
    }
    max_paths = 20000

    def budget(self, tier):
        return (200, 20000) if tier == "quick" else (2400, 120000)

    def shapes(self, tier):
        b = self.bounds[tier]
        out = []
        for rh in b["rendered_height"]:
            for cs in b["cell_sizes"]:
                for method in ("lines", "whole"):
                    for mode in ("RGB", "RGBA"):
                        out.append({"style": "kitty", "method": method, "r_height": rh, "cell": cs, "mode": mode, "chunks": b["max_chunks"]})
                for t in ("iterm2", "konsole", "wezterm"):
                    for method in ("lines", "whole", "anim"):
                        for mode in ("RGB", "RGBA"):
                            if method == "anim" and mode == "RGBA":
                                continue
                            out.append({"style": "iterm2", "method": method, "r_height": rh, "cell": cs, "term": t, "mode": mode})
        return out

    def setup(self, shape, concrete):
        from PIL import Image

        from term_image.image import ITerm2Image, KittyImage, block, common, iterm2, kitty

        self.mods = dict(common=common, kitty=kitty, iterm2=iterm2, block=block)
        KittyImage._supported = True
        ITerm2Image._supported = True
        self.cls = {"kitty": KittyImage, "iterm2": ITerm2Image}[shape["style"]]
        self.img = self.cls(Image.new("RGB", (1, 1)), width=1, height=1)

    # ------------------------------------------------------------------ oracle
    def expected_size(self, ctx, shape):
        """pixel size the documentation prescribes for the transmitted image"""
        cw, ch = ctx["cs"]
        rw, rh = term(ctx["rw"]), ctx["rh"]
        full = (rw * cw, I(rh * ch))
        if shape["method"] != "whole":
            return full
        ow, oh = term(ctx["ow"]), term(ctx["oh"])
        smaller = full[0] * full[1] < ow * oh
        return (z3.If(smaller, full[0], ow), z3.If(smaller, full[1], oh))

    def body(self, eng, shape):
        out, rw, rh, ctx = cr.graphics_render(self, eng, shape, deep=True)
        eng.reachable()
        t, g = cr.screen(eng, rw, rh)
        t.feed(out).finish()
        cr.claim_events(eng, t)
        if shape["style"] == "kitty":
            self.kitty_claims(eng, shape, t, ctx)
        else:
            self.iterm2_claims(eng, shape, t, ctx)
        eng.observe("transmissions", len(t.transmissions))

    def kitty_claims(self, eng, shape, t, ctx):
        lines = shape["method"] == "lines"
        rh, cs = ctx["rh"], ctx["cs"]
        bpp = len(ctx["mode"])
        n_exp = rh if lines else 1
        eng.claim("kitty: one transmission per line (LINES) / one in total (WHOLE)", len(t.transmissions) == n_exp)
        eng.claim("kitty: exactly one render of the source image, with the given alpha", len(ctx["renders"]) == 1 and ctx["renders"][0]["src"] is ctx["src"] and ctx["renders"][0]["alpha"] is None)
        if len(ctx["renders"]) != 1 or len(t.transmissions) != n_exp:
            return
        W, Ht = (term(x) for x in ctx["renders"][0]["size"])
        ew, eh = self.expected_size(ctx, shape)
        eng.claim("kitty: image rendered at the documented pixel size", z3.And(W == ew, Ht == eh))
        level = term(ctx["level"])
        n_del = sum(1 for d in t.deletes if d.get("d") == "C")
        eng.claim("kitty: overlapping images deleted at the cursor before every transmission iff blending is off",
                  z3.If(core._boolterm(ctx["blend"]), z3.BoolVal(n_del == 0), z3.BoolVal(n_del == n_exp and len(t.deletes) == n_del)))
        for i, tr in enumerate(t.transmissions):
            k = tr["keys"]
            num = lambda key: t._kv_num(k[key]) if key in k else None  # noqa: E731
            st = lambda key: t._kv_str(k[key]) if key in k else None  # noqa: E731
            present = all(key in k for key in ("a", "f", "t", "s", "v", "z", "C", "c", "r"))
            eng.claim(f"kitty[{i}]: all control keys present on the first chunk", present)
            if not present:
                continue
            v_exp = I(cs[1]) if lines else Ht
            eng.claim(
                f"kitty[{i}]: control keys a,f,t,s,v,z,C,c,r carry the expected values",
                z3.And(
                    z3.BoolVal(st("a") == "T" and st("t") == "d"), num("f") == (32 if bpp == 4 else 24), num("s") == W, num("v") == v_exp,
                    num("z") == term(ctx["z"]), num("C") == 1, num("c") == term(ctx["rw"]), num("r") == (1 if lines else rh),
                ),
            )
            has_o = "o" in k
            eng.claim(f"kitty[{i}]: the o key, when present, is 'z'", (not has_o) or st("o") == "z")
            # chunk payloads tile one base64 object
            L = W * v_exp * bpp
            if eng.concrete is not None:
                pieces = eng.registry.reify_b64_chunks([cr.literal_text(pl) for _, _, pl in tr["chunks"]], hint=i * z3.simplify(L).as_long())
            else:
                pieces = [a for _, _, pl in tr["chunks"] for a in pl]
            ok_struct = bool(pieces) and all(isinstance(a, Opq) and a.meta and a.meta.get("kind") == "b64" and a.name == pieces[0].name for a in pieces)
            eng.claim(f"kitty[{i}]: every chunk payload is a slice of the one base64 text", ok_struct)
            if not ok_struct:
                continue
            b64 = pieces[0].meta
            tile = [pieces[0].start == 0]
            for a, b in zip(pieces, pieces[1:]):
                tile.append(b.start == a.start + a.length)
            tile.append(pieces[-1].start + pieces[-1].length == b64["total"])
            eng.claim(f"kitty[{i}]: concatenated chunk payloads = the whole base64 text, in order", z3.And(*tile))
            first_m = tr["chunks"][0][0]
            eng.claim(f"kitty[{i}]: first chunk's m flag says whether more follows", first_m == (1 if len(tr["chunks"]) > 1 else 0))
            # provenance: base64 of (zlib of)? the raw strip
            src = b64["src"]
            inner, complete = whole_piece(src)
            if inner is None:
                eng.claim(f"kitty[{i}]: payload encodes exactly one object", False)
                continue
            is_z = inner.meta.get("kind") == "zlib"
            eng.claim(f"kitty[{i}]: payload is zlib-compressed iff the command says o=z", is_z == has_o)
            if is_z:
                eng.claim(f"kitty[{i}]: compression only with a non-zero level, at that level, whole compressed output sent",
                          z3.And(level != 0, complete, term(inner.meta["level"]) == level))
                raw_list = inner.meta["src"]
            else:
                raw_list = src
            raws = [a for a in raw_list if isinstance(a, Opq)]
            ok_raw = len(raws) >= 1 and len(raw_list) == len(raws) and raws[0].meta.get("kind") == "raw" and raws[0].meta["img"] is ctx["renders"][0]["img"]
            eng.claim(f"kitty[{i}]: payload bytes come from the rendered image's pixel data", ok_raw)
            if not ok_raw:
                continue
            r = raws[0]
            eng.claim(f"kitty[{i}]: decoded payload is exactly s*v*bytes-per-pixel bytes: strip {i} of the image", z3.And(r.length == L, r.start == i * L, *[q.length == 0 for q in raws[1:]]))
            if i == n_exp - 1:
                eng.claim("kitty: strips stitch back to the whole image", r.start + r.length == r.meta["total"])

    def iterm2_claims(self, eng, shape, t, ctx):
        method = shape["method"]
        lines = method == "lines"
        rh, cs = ctx["rh"], ctx["cs"]
        konsole = shape["term"] == "konsole"
        trs = [tr for tr in t.transmissions]
        native = method == "anim" and bool(ctx["animated"])
        n_exp = rh if lines else 1
        eng.claim("iterm2: one image per line (LINES) / one in total", len(trs) == n_exp)
        if len(trs) != n_exp:
            return
        gate = None
        if method == "whole":
            ow, oh, rw = term(ctx["ow"]), term(ctx["oh"]), term(ctx["rw"])
            m = ctx["src_mode"]
            readable = core._boolterm(ctx["readable"]) if ctx["from_pil"] else z3.BoolVal(True)  # a file-path source is read by path
            gate = z3.And(
                core._boolterm(ctx["rff"]), z3.Not(core._boolterm(ctx["animated"])), readable,
                ow * oh <= (rw * cs[0]) * (rh * cs[1]),
                z3.BoolVal(m in {"1", "L", "RGB", "HSV", "CMYK"} or (isinstance(ctx["alpha"], float) and m not in {"P", "PA"})),
            )
        for i, tr in enumerate(trs):
            k = tr["keys"]
            num = lambda key: t._kv_num(k[key]) if key in k else None  # noqa: E731
            present = all(key in k for key in ("size", "width", "height", "preserveAspectRatio", "inline"))
            eng.claim(f"iterm2[{i}]: size/width/height/preserveAspectRatio/inline keys present", present)
            if not present:
                continue
            eng.claim(f"iterm2[{i}]: width/height in cells, aspect ratio not preserved, inline",
                      z3.And(num("width") == term(ctx["rw"]), num("height") == (1 if lines else rh), num("preserveAspectRatio") == 0, num("inline") == 1))
            eng.claim(f"iterm2[{i}]: doNotMoveCursor=1 exactly on konsole", ("doNotMoveCursor" in k) == konsole)
            payload = k["_payload"]
            if eng.concrete is not None:
                hint = 0
                if lines and len(ctx["renders"]) == 1:
                    hint = i * z3.simplify(term(ctx["renders"][0]["size"][0]) * cs[1] * len(ctx["mode"])).as_long()
                payload = eng.registry.reify_b64_chunks([cr.literal_text(payload)], hint=hint)
            b, complete = whole_piece(payload)
            ok = b is not None and b.meta.get("kind") == "b64"
            eng.claim(f"iterm2[{i}]: payload is one complete base64 text", z3.And(complete, z3.BoolVal(ok)))
            if not ok:
                continue
            eng.claim(f"iterm2[{i}]: size= equals the decoded payload length", num("size") == b.meta["n"])
            inner, icomplete = whole_piece(b.meta["src"])
            eng.claim(f"iterm2[{i}]: payload encodes exactly one complete object (no stale bytes)", z3.And(icomplete, z3.BoolVal(inner is not None)))
            if inner is None:
                continue
            kind = inner.meta.get("kind")
            if native:
                if ctx["from_pil"]:
                    if bool(ctx["readable"]):
                        eng.claim("iterm2 ANIM: readable source file sent untouched", kind == "file")
                    else:
                        eng.claim("iterm2 ANIM: unreadable PIL source re-saved with all frames", kind == "enc" and inner.meta["img"] is ctx["src"] and inner.meta["kw"].get("save_all") is True)
                else:
                    eng.claim("iterm2 ANIM: source file sent untouched", kind == "file")
                continue
            if gate is not None:
                eng.claim("iterm2 WHOLE: the untouched source file is sent iff read-from-file applies", z3.BoolVal(kind == "file") == gate)
            if kind == "file":
                eng.claim("iterm2: no render when reading from file", len(ctx["renders"]) == 0)
                continue
            eng.claim(f"iterm2[{i}]: payload is an encoded image", kind == "enc")
            if kind != "enc" or len(ctx["renders"]) != 1:
                eng.claim("iterm2: exactly one render of the source", len(ctx["renders"]) == 1)
                continue
            rd = ctx["renders"][0]
            W, Ht = (term(x) for x in rd["size"])
            ew, eh = self.expected_size(ctx, shape)
            eng.claim("iterm2: image rendered at the documented pixel size from the given source and alpha", z3.And(W == ew, Ht == eh, z3.BoolVal(rd["src"] is ctx["src"] and rd["alpha"] is ctx["alpha"])))
            jq = term(ctx["jq"])
            want_jpeg = z3.And(jq >= 0, z3.BoolVal(ctx["mode"] == "RGB"))
            fmt = inner.meta["fmt"]
            kw = inner.meta["kw"]
            eng.claim(f"iterm2[{i}]: JPEG iff quality >= 0 and no alpha, else PNG; quality / compression level passed on",
                      z3.If(want_jpeg, z3.And(z3.BoolVal(fmt == "jpeg"), term(kw.get("quality", -1)) == jq if kw.get("quality") is not None else z3.BoolVal(False)),
                            z3.And(z3.BoolVal(fmt == "png" and kw.get("quality") is None), term(kw.get("compress_level", -1)) == term(ctx["level"]))))
            enc_img = inner.meta["img"]
            if lines:
                ok_strip = i < len(ctx["strips"]) and enc_img is ctx["strips"][i]["img"]
                eng.claim(f"iterm2[{i}]: line {i} encodes strip {i}", ok_strip)
                if not ok_strip:
                    continue
                sd = ctx["strips"][i]
                data = eng.registry.reify_bytes(sd["data"], hint) if eng.concrete is not None else [a for a in sd["data"].parts]
                ok_raw = len(data) >= 1 and isinstance(data[0], Opq) and data[0].meta.get("kind") == "raw" and data[0].meta["img"] is rd["img"]
                eng.claim(f"iterm2[{i}]: strip pixels come from the rendered image", ok_raw)
                if not ok_raw:
                    continue
                r = data[0]
                L = W * cs[1] * len(ctx["mode"])
                eng.claim(f"iterm2[{i}]: strip {i} is rows [{i}*cell_height, +cell_height) of the image at full width",
                          z3.And(r.start == i * L, r.length == L, *[q.length == 0 for q in data[1:] if isinstance(q, Opq)], term(sd["size"][0]) == W, term(sd["size"][1]) == cs[1], z3.BoolVal(sd["mode"] == ctx["mode"])))
                if i == n_exp - 1:
                    eng.claim("iterm2: strips stitch back to the whole image", r.start + r.length == r.meta["total"])
            else:
                eng.claim("iterm2 WHOLE: the rendered image itself is encoded", enc_img is rd["img"])


CHECK = C03()
