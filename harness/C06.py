"""C06 - draw() leaves the picture in place and the cursor on the line below it."""
from __future__ import annotations

import sys

import z3

from sx import core, tstr
from sx.core import SymBool, sym_and, sym_or, term
from sx.driver import Check
from sx.term import BLANK, UNWRITTEN

from . import draw_common as dc


class C06(Check):
    id = "C06"
    level = "other"
    functions = [
        "term_image.renderable._renderable:Renderable.draw",
        "term_image.renderable._renderable:Renderable._animate_",
        "term_image.renderable._renderable:Renderable._init_render_",
        "term_image.render._iterator:RenderIterator._iterate",
        "term_image.image.common:BaseImage.draw",
        "term_image.image.common:BaseImage._renderer",
        "term_image.image.common:BaseImage._display_animated",
        "term_image.image.common:BaseImage._format_render",
        "term_image.image.common:ImageIterator._animate",
        "term_image.image.iterm2:ITerm2Image._display_animated",
        "term_image.image.kitty:KittyImage._display_animated",
        "term_image.image.kitty:KittyImage._clear_frame",
        "term_image.image.kitty:KittyImage.clear",
        "term_image.image.kitty:KittyImage._render_image",
    ]
    explanation = (
        "The real Renderable.draw/_animate_/_init_render_ (with the real RenderIterator and Padding) and the real BaseImage.draw/"
        "_renderer/_display_animated/_format_render (with the real ImageIterator) write into a recording stream; frames are glyph "
        "boxes of symbolic width (one glyph kind per frame).  Render width, padding width, terminal size, the initial cursor row "
        "(including rows that force scrolling), TTY-ness and the flags are z3 variables; frame count, loops, render height and "
        "vertical padding are enumerated; the renderable API is driven with aligned (absolute / terminal-relative) and with exact per-side padding.  The byte stream is interpreted by the terminal model with scroll tracking and a symbolic "
        "probe cell in document coordinates: after every frame the probe shows that frame's glyph iff it lies in the inner rectangle "
        "fixed by the first frame, padding cells are blank, everything else untouched; the final cursor is at column 0 of the line "
        "immediately below the padded region, visible, attributes reset; the screen scrolled exactly as far as the region's height "
        "made necessary; size validation raises the documented error iff the documented rule says so, with nothing written before."
    )
    assumptions = [
        "terminal model sx/term.py with scrolling; the cursor starts at column 0 (draw() output is column-0 based)",
        "frames are abstract glyph boxes (C01 establishes the box contract for the real render styles)",
        "frame count <= 3, loops <= 2, render height <= 3, vertical padding <= 2 per side (enumerated); widths, terminal size, start row unbounded",
        "clock / sleep stubbed (time is irrelevant to placement)",
    ]
    bounds = {"quick": {"heights": [1, 2], "dv": [0, 1], "frames": [1, 2, 3]}, "thorough": {"heights": [1, 2, 3], "dv": [0, 1, 2, 3], "frames": [1, 2, 3]}}
    max_paths = 100000

    def budget(self, tier):
        return (280, 10000) if tier == "quick" else (3000, 60000)

    def shapes(self, tier):
        b = self.bounds[tier]
        out = []
        for api in ("new", "old"):
            for h in b["heights"]:
                for dv in b["dv"]:
                    for n in b["frames"]:
                        for loops in ((1,) if n == 1 else (1, 2)):
                            out.append({"api": api, "h": h, "dv": dv, "frames": n, "loops": loops})
                        if api == "new" and n <= 2:
                            # exact (per-side) padding instead of the aligned kind
                            out.append({"api": api, "h": h, "dv": dv, "frames": n, "loops": n, "pad": "exact"})
        # old API: a padding height smaller than the render height (it then has no effect on that axis)
        for h in [x for x in b["heights"] if x >= 2]:
            for n in (1, 2):
                out.append({"api": "old", "h": h, "dv": -1, "frames": n, "loops": 1})
        # animated draw of the iterm2 style through its real _display_animated (wezterm pre-erase) / _render_image (WHOLE)
        for t_ in ("iterm2", "wezterm", "konsole"):
            for h in ((1, 2) if tier == "quick" else (1, 2, 3)):
                for dv in ((0, 1) if tier == "quick" else (0, 1, 2)):
                    out.append({"api": "old", "part": "iterm2_anim", "term": t_, "h": h, "dv": dv, "frames": 2, "loops": 1})
        # per-frame clearing of the kitty graphics style (real renderer, real clearing hooks), per terminal version
        for version in ([0, 24, 0], [0, 25, 0], [0, 25, 1], [0, 30, 0]):
            for method in ("lines", "whole"):
                for h in ((1, 2) if tier == "quick" else (1, 2, 3)):
                    out.append({"api": "old", "part": "kitty_clearing", "version": version, "method": method, "h": h, "frames": 2, "loops": 2 if h == 1 else 1})
        return out

    def setup(self, shape, concrete):
        import term_image.render._iterator as IT
        import term_image.renderable._renderable as RM
        from PIL import Image
        from term_image import geometry, padding
        from term_image.image import BlockImage, common
        from term_image.renderable import Frame, Renderable, RenderSizeOutofRangeError

        self.RM, self.IT, self.G, self.P, self.common = RM, IT, geometry, padding, common
        self.Frame, self.Renderable, self.SizeError = Frame, Renderable, RenderSizeOutofRangeError
        self.BlockImage, self.PIL = BlockImage, Image

    # --------------------------------------------------------------- new API
    def draw_new(self, eng, shape, stream, W, H):
        RM, G, P, Frame, Renderable = self.RM, self.G, self.P, self.Frame, self.Renderable
        h, n = shape["h"], shape["frames"]
        w = eng.int("render_w", 1)
        tsize = dc.TS((W, H))
        RM.get_terminal_size = lambda: tsize
        self.IT.get_terminal_size = lambda: tsize
        RM.sleep = lambda s: None
        clock = [0]

        def tick():
            clock[0] += 1
            return clock[0]

        RM.perf_counter_ns = tick
        size = G._Size(w, h)

        class Box(Renderable):
            def __init__(s):
                super().__init__(n, 1)

            def _get_render_size_(s):
                return size

            def _render_(s, render_data, render_args):
                k = render_data[Renderable].frame_offset
                return Frame(k, 1, size, dc.box(dc.GLYPHS[k], w, h))

        check_size = bool(eng.bool("check_size"))
        allow_scroll = bool(eng.bool("allow_scroll"))
        Hp = h + shape["dv"]
        if shape.get("pad") == "exact":
            pl, pr = eng.int("pad_left", 0), eng.int("pad_right", 0)
            top = eng.choice("pad_top", shape["dv"] + 1)
            pad = P.ExactPadding(pl, top, pr, shape["dv"] - top)
            Wp, left = w + pl + pr, pl
        else:
            mw = eng.int("pad_w")  # absolute (> 0) or terminal-relative (<= 0)
            ha, va = eng.choice("h_align", 3), eng.choice("v_align", 3)
            pad = P.AlignedPadding(mw, h + shape["dv"], P.HAlign(ha), P.VAlign(va))
            # geometry the documentation prescribes
            aw = core.sym_if(mw > 0, mw, core.sym_if(W + mw > 1, W + mw, 1))
            Wp = core.sym_if(aw > w, aw, w)
            padw = Wp - w
            left = [0, padw // 2, padw][ha]
            top = [0, shape["dv"] // 2, shape["dv"]][va]
        animation = n > 1
        must_reject = sym_or(sym_and(check_size or animation, Wp > W), sym_and((check_size or animation) and (animation or not allow_scroll), Hp > H))
        try:
            Box().draw(None, pad, loops=shape["loops"], check_size=check_size, allow_scroll=allow_scroll, hide_cursor=bool(eng.bool("hide_cursor")), echo_input=True)
            rejected = False
        except self.SizeError:
            rejected = True
        return dict(w=w, h=h, Wp=Wp, Hp=Hp, left=left, top=top, rejected=rejected, must_reject=must_reject, n_frames=n, fits_w=Wp <= W)

    # --------------------------------------------------------------- old API
    def draw_old(self, eng, shape, stream, W, H):
        common = self.common
        h, n = shape["h"], shape["frames"]
        w = eng.int("render_w", 1)
        tsize = dc.TS((W, H))
        common.get_terminal_size = lambda: tsize
        common.time = type("time", (), {"sleep": staticmethod(lambda s: None), "time": staticmethod(lambda: 0.0)})
        img = self.BlockImage(self.PIL.new("RGB", (1, 1)), width=1, height=1)
        img._size = (w, h)
        animated = n > 1
        img._is_animated = animated
        if animated:
            img._n_frames = n
            img._frame_duration = 0.1
            img._seek_position = 0

        class Src:
            mode = "RGB"

            def seek(s, k):
                pass

            def close(s):
                pass

        img._source = Src()

        def render_image(self_, im, alpha, *, frame=False, **kw):
            k = self_._seek_position if animated else 0
            if k >= n:
                raise EOFError
            return dc.box(dc.GLYPHS[k], w, h)

        type(img)._render_image = render_image
        pw = eng.int("pad_width")
        ph = h + shape["dv"]
        ha = [None, "<", "|", ">"][eng.choice("h_align", 4)]
        va = [None, "^", "-", "_"][eng.choice("v_align", 4)]
        check_size = bool(eng.bool("check_size"))
        scroll = bool(eng.bool("scroll"))
        aw = core.sym_if(pw > 0, pw, core.sym_if(W + pw > 1, W + pw, 1))
        Wp = core.sym_if(aw > w, aw, w)
        Hp = max(ph, h)  # a padding height below the render height has no effect
        padw = Wp - w
        left = {"<": 0, ">": padw}.get(ha, padw // 2)
        dv_eff = max(shape["dv"], 0)
        top = {"^": 0, "_": dv_eff}.get(va, dv_eff // 2)
        # documented rules: pad_width must not exceed the terminal width (ValueError); for animations pad_height must not
        # exceed the terminal height; image size validated when check_size (height unless scroll) or always for animations
        must_value_error = sym_or(pw > W, sym_and(animated, ph > H))
        must_size_error = sym_or(sym_and(check_size or animated, w > W), sym_and((check_size and not scroll) or animated, h > H))
        try:
            img.draw(ha, pw, va, ph, None, repeat=shape["loops"], cached=False, scroll=scroll, check_size=check_size)
            rejected = None
        except common.InvalidSizeError:
            rejected = "InvalidSizeError"
        except ValueError:
            rejected = "ValueError"
        return dict(w=w, h=h, Wp=Wp, Hp=Hp, left=left, top=top, rejected=rejected, must_value_error=must_value_error, must_size_error=must_size_error,
                    n_frames=n, fits_w=Wp <= W)

    # ------------------------------------------------------- kitty clearing
    def kitty_clearing(self, eng, shape):
        """An animation drawn with the kitty style: real KittyImage.draw / _display_animated / _clear_frame / clear /
        _render_image / ImageIterator.  After draw() returns, the placements of the last frame - and only those - must
        still be on the terminal (every earlier frame deleted by z-index or at the cursor, depending on the version)."""
        from term_image.image import KittyImage, kitty

        from . import common_render as cr

        common = self.common
        W, H, y0, px, py = dc.screen(eng)
        h, n, loops = shape["h"], shape["frames"], shape["loops"]
        w = eng.int("render_w", 1, 1 << 10)
        eng.assume(sym_and(w <= W, y0 + h < H))
        tsize = dc.TS((W, H))
        common.get_terminal_size = lambda: tsize
        common.time = type("time", (), {"sleep": staticmethod(lambda s: None), "time": staticmethod(lambda: 0.0)})
        KittyImage._supported = True
        KittyImage._KITTY_VERSION = tuple(shape["version"])
        cs = (2, 3)
        common.get_cell_size = lambda: cs
        kitty.standard_b64encode = cr.b64_stub(eng)
        kitty.compress = cr.compress_stub(eng, 3000)  # one chunk per transmission: chunking is C03's subject
        eng.registry = cr.Registry()
        kitty._stdout_write = lambda s_: sys.stdout.write(s_)
        img = KittyImage(self.PIL.new("RGB", (1, 1)), width=1, height=1)
        img._size = (w, h)
        img._original_size = (eng.int("ori_w", 1, 1 << 10), eng.int("ori_h", 1, 1 << 10))
        img._is_animated, img._n_frames, img._frame_duration, img._seek_position = True, n, 0.1, 0

        class Src:
            mode = "RGB"

            def seek(s_, k):
                pass

            def close(s_):
                pass

        img._source = Src()

        def get_render_data(self_, im, alpha, *, size=None, pixel_data=True, round_alpha=False, frame=False):
            if self_._seek_position >= n:
                raise EOFError
            ww, hh = size
            eng.assume(ww * hh * 3 <= 3000)
            return (cr.FakeImg(eng, "RGB", (ww, hh), f"frame{self_._seek_position}"), None, None)

        type(img)._get_render_data = get_render_data
        stream = dc.Stream(eng, True)
        old = sys.stdout
        sys.stdout = stream
        try:
            img.draw("<", w, "^", h, None, repeat=loops, cached=bool(eng.bool("cached")), check_size=False, method=shape["method"])
        finally:
            sys.stdout = old
        eng.reachable()
        t = dc.run_term(W, H, y0, px, py, stream.delivered, preset_sgr=True).finish()
        from .common_render import claim_events

        claim_events(eng, t)
        per_frame = h if shape["method"] == "lines" else 1
        total = n * loops * per_frame
        eng.claim("kitty animation: cursor visible and text attributes reset (whatever was active before)", z3.And(t.cursor_visible, t.sgr_default()))
        eng.claim("kitty animation: every frame is transmitted and placed (frames x loops x placements per frame)", len(t.placements) == total)
        if len(t.placements) != total:
            return
        stale = [t.survives(i) for i in range(total - per_frame)]
        eng.claim("kitty animation: after draw() only the last frame is on the terminal - every earlier frame's placements were deleted (by z-index or at the cursor)",
                  z3.Not(z3.Or(*stale)) if stale else True)
        eng.claim("kitty animation: the last frame's placements are still on the terminal", z3.And(*[t.survives(i) for i in range(total - per_frame, total)]))
        first, last = t.placements[0], t.placements[total - per_frame]
        eng.claim("kitty animation: the last frame is placed where the first one was", z3.And(last["col"] == first["col"], last["row"] == first["row"], last["cols"] == first["cols"]))
        eng.observe("placements", len(t.placements))

    # ------------------------------------------------------- iterm2 animation
    def iterm2_anim(self, eng, shape):
        """A two-frame animation drawn with the iterm2 style (WHOLE method) through the real ITerm2Image.draw /
        _display_animated (incl. the wezterm pre-erase) / _render_image / _format_render, with padding."""
        from term_image.image import ITerm2Image, iterm2

        from sx.term import GRAPHIC

        from . import common_render as cr

        common = self.common
        W, H, y0, px, py = dc.screen(eng)
        h, n, loops, dv = shape["h"], shape["frames"], shape["loops"], shape["dv"]
        w = eng.int("render_w", 1, 1 << 10)
        pr = eng.int("pad_right", 0, 1 << 10)
        Wp, Hp = w + pr, h + dv
        # the padded region fits below the start row: what a terminal does with an image placed partly below the screen
        # (clip / scroll) is terminal-specific and outside the model
        eng.assume(sym_and(Wp <= W, y0 + Hp < H))
        tsize = dc.TS((W, H))
        common.get_terminal_size = lambda: tsize
        common.time = type("time", (), {"sleep": staticmethod(lambda s: None), "time": staticmethod(lambda: 0.0)})
        ITerm2Image._supported = True
        ITerm2Image._TERM = shape["term"]
        common.get_cell_size = lambda: (2, 3)
        iterm2.standard_b64encode = cr.b64_stub(eng)
        iterm2._stdout_write = lambda s_: sys.stdout.write(s_)
        eng.registry = cr.Registry()
        img = ITerm2Image(self.PIL.new("RGB", (1, 1)), width=1, height=1)
        img._size = (w, h)
        img._original_size = (eng.int("ori_w", 1, 1 << 10), eng.int("ori_h", 1, 1 << 10))
        img._is_animated, img._n_frames, img._frame_duration, img._seek_position = True, n, 0.1, 0

        class Src:
            mode = "RGB"

            def seek(s_, k):
                pass

            def close(s_):
                pass

        img._source = Src()

        def get_render_data(self_, im, alpha, *, size=None, pixel_data=True, round_alpha=False, frame=False):
            if self_._seek_position >= n:
                raise EOFError
            return (cr.FakeImg(eng, "RGB", tuple(size), f"frame{self_._seek_position}"), None, None)

        type(img)._get_render_data = get_render_data
        va = ["^", "-", "_"][eng.choice("v_align", 3)]
        top = {"^": 0, "_": dv}.get(va, dv // 2)
        stream = dc.Stream(eng, True)
        old = sys.stdout
        sys.stdout = stream
        try:
            img.draw("<", Wp, va, Hp, None, repeat=loops, cached=False, check_size=False, method="whole", mix=bool(eng.bool("mix")))
        finally:
            sys.stdout = old
        eng.reachable()
        t = dc.run_term(W, H, y0, px, py, stream.delivered, preset_sgr=True).finish()
        from .common_render import claim_events

        claim_events(eng, t)
        x1, yb = z3.IntVal(0), term(y0) + top
        in_inner = z3.And(term(px) >= x1, term(px) < x1 + term(w), term(py) >= yb, term(py) < yb + h)
        in_box = z3.And(term(px) >= 0, term(px) < term(Wp), term(py) >= term(y0), term(py) < term(y0) + Hp)
        eng.claim("every frame is placed (frames x loops images)", len(t.placements) == n * loops)
        if len(t.placements) == n * loops:
            eng.claim("final picture: the last frame's image sits exactly where the first frame was drawn",
                      z3.Implies(in_inner, z3.And(t.p_written, t.p_glyph == GRAPHIC, t.p_image == n * loops - 1)))
            first, last = t.placements[0], t.placements[-1]
            eng.claim("every frame is drawn over the same cells", z3.And(last["col"] == first["col"], last["row"] == first["row"], last["cols"] == first["cols"], last["rows"] == first["rows"]))
        eng.claim("every cell outside the padded region is as before", z3.Implies(z3.Not(in_box), z3.Not(t.p_written)))
        eng.claim("cursor ends at the start of the line immediately below the padded region", z3.And(t.col == 0, t.row == term(y0) + Hp))
        eng.claim("cursor visible and text attributes reset", z3.And(t.cursor_visible, t.sgr_default()))
        need = term(y0) + Hp - (term(H) - 1)
        eng.claim("the screen scrolls exactly as far as the region's height makes necessary", t.top == z3.If(need > 0, need, 0))
        eng.observe("placements", len(t.placements))

    # ------------------------------------------------------------------ body
    def body(self, eng, shape):
        if shape.get("part") == "kitty_clearing":
            return self.kitty_clearing(eng, shape)
        if shape.get("part") == "iterm2_anim":
            return self.iterm2_anim(eng, shape)
        W, H, y0, px, py = dc.screen(eng)
        tty = bool(eng.bool("stdout_is_a_tty"))
        stream = dc.Stream(eng, tty)
        old = sys.stdout
        sys.stdout = stream
        try:
            g = (self.draw_new if shape["api"] == "new" else self.draw_old)(eng, shape, stream, W, H)
        finally:
            sys.stdout = old
        eng.reachable()
        if shape["api"] == "new":
            eng.claim("size validation rejects exactly what the documented rules say does not fit", g["must_reject"] if g["rejected"] else core.sym_not(g["must_reject"]))
            if g["rejected"]:
                eng.claim("a rejected draw writes nothing", len(stream.delivered) == 0)
                return
        else:
            if g["rejected"] == "ValueError":
                eng.claim("padding larger than the terminal is rejected (ValueError) only when the documented rule says so", g["must_value_error"])
            elif g["rejected"] == "InvalidSizeError":
                eng.claim("InvalidSizeError only when the documented rule says the image does not fit", sym_and(core.sym_not(g["must_value_error"]), g["must_size_error"]))
            else:
                eng.claim("sizes that violate the documented rules are rejected", core.sym_not(sym_or(g["must_value_error"], g["must_size_error"])))
            if g["rejected"]:
                eng.claim("a rejected draw writes nothing", len(stream.delivered) == 0)
                return
        # the padded region must fit the terminal width for the placement claims (otherwise lines wrap by definition)
        eng.assume(g["fits_w"])
        w, h, Wp, Hp, left, top = (g[k] for k in ("w", "h", "Wp", "Hp", "left", "top"))
        x1, yb = term(left), term(y0) + top
        in_inner = z3.And(term(px) >= x1, term(px) < x1 + term(w), term(py) >= yb, term(py) < yb + h)
        in_box = z3.And(term(px) >= 0, term(px) < term(Wp), term(py) >= term(y0), term(py) < term(y0) + Hp)
        # old API: BaseImage.draw() promises to reset the attributes (whatever the caller left active); the renderable API
        # does not touch them, so there the claim is "not left changed"
        t = dc.run_term(W, H, y0, px, py, stream.delivered, preset_sgr=shape["api"] == "old").finish()
        from .common_render import claim_events

        # wrap events matter; scrolling is legitimate here
        claim_events(eng, t)
        last = (shape["frames"] - 1)
        eng.claim("final picture: the last frame sits exactly where the first frame was drawn",
                  z3.Implies(in_inner, z3.And(t.p_written, t.p_glyph == dc.GLYPH_KIND[last])))
        eng.claim("padding cells are blank", z3.Implies(z3.And(in_box, z3.Not(in_inner)), z3.And(t.p_written, t.p_glyph == BLANK)))
        eng.claim("every cell outside the padded region is as before", z3.Implies(z3.Not(in_box), z3.Not(t.p_written)))
        eng.claim("cursor ends at the start of the line immediately below the padded region", z3.And(t.col == 0, t.row == term(y0) + Hp))
        eng.claim("cursor visible and text attributes reset", z3.And(t.cursor_visible, t.sgr_default()))
        need = term(y0) + Hp - (term(H) - 1)
        eng.claim("the screen scrolls exactly as far as the region's height makes necessary", t.top == z3.If(need > 0, need, 0))
        eng.observe("flushes", len(stream.marks))


CHECK = C06()
