"""C12 - terminal queries report what the terminal said, whatever the timing."""
from __future__ import annotations

import z3

from sx import core, rx
from sx.core import SymBool, SymInt, sym_and, term
from sx.driver import Check
from sx.rx import CStr

from . import pty_model as pm

ESC = "\x1b"
TIMEOUT = 100  # clock ticks


class TS(tuple):
    columns = property(lambda s: s[0])
    lines = property(lambda s: s[1])


def install_patterns(ctlseqs, concrete):
    names = ["RGB_SPEC_re", "XTVERSION_re", "TEXT_AREA_SIZE_PX_re", "CELL_SIZE_PX_re", "KITTY_RESPONSE_re"]
    real = {n: getattr(ctlseqs, n) for n in names}
    if not concrete:
        for n in names:
            if not isinstance(real[n], rx.SxPattern):
                setattr(ctlseqs, n, rx.SxPattern(real[n]))
    return real


class C12(Check):
    id = "C12"
    level = "other"
    functions = [
        "term_image.utils:query_terminal",
        "term_image.utils:read_tty",
        "term_image.utils:write_tty",
        "term_image.utils:get_fg_bg_colors",
        "term_image.utils:get_terminal_name_version",
        "term_image.utils:get_cell_size",
        "term_image._ctlseqs:x_parse_color",
        "term_image.image.kitty:KittyImage.is_supported",
        "term_image.image.iterm2:ITerm2Image.is_supported",
        "term_image.image:auto_image_class",
    ]
    explanation = (
        "The real query functions (byte-wise read loop included) run against a pty/terminal model: the terminal answers each "
        "supported query with one reply unit; which queries are supported, the arrival delays (integer clock ticks, any values "
        "whose sum stays below the timeout), the colour components (symbolic hex digits, 1-4 per component), ST vs BEL, the cell-size "
        "reply digits, the ioctl pixel size and the window-size-swap setting are z3 variables / forked selectors; terminal names and "
        "versions are enumerated around the documented thresholds.  The response regexes run through the symbolic matcher.  Claims: "
        "colours = v*255 // (16^k - 1) per component, name/version as sent, cell size per the documented rules, support flags and "
        "auto_image_class() per the documented preference, no reply byte left unread, and a bounded wait (<= timeout) with the "
        "documented fallbacks when nothing (or not everything) is answered or queries are disabled."
    )
    assumptions = [
        "pty model harness/pty_model.py (trusted): replies are written as units, in order; reading costs no time; time advances only in select()",
        "the sum of the reply delays is below the query timeout (each reply 'after an arbitrary delay shorter than the timeout')",
        "terminal identities / versions enumerated: kitty 0.19.3/0.20.0/0.25.0/0.26.1, konsole 22.03.9/22.04.0, wezterm, iterm2, foot",
        "the symbolic regex matcher stands in for re (differentially tested in C19's run)",
    ]
    bounds = {"quick": {"hex_widths": [1, 2, 4]}, "thorough": {"hex_widths": [1, 2, 3, 4]}}
    max_paths = 100000

    def budget(self, tier):
        return (280, 10000) if tier == "quick" else (3000, 60000)

    def shapes(self, tier):
        out = []
        for k in self.bounds[tier]["hex_widths"]:
            out.append({"fn": "colors", "k": k})
        out.append({"fn": "colors_disabled"})
        for name, ver in (("kitty", "0.19.3"), ("kitty", "0.20.0"), ("kitty", "0.26.1"), ("konsole", "22.03.9"), ("konsole", "22.04.0"), ("WezTerm", "20230712"), ("iTerm2", "3.4.19"), ("foot", "1.16.2"), ("kitty", "x.y")):
            out.append({"fn": "identity", "name": name, "version": ver})
        for nd in (1, 2, 3):
            out.append({"fn": "cell_size", "digits": nd})
        return out

    def setup(self, shape, concrete):
        import term_image
        from term_image import _ctlseqs as ctlseqs
        from term_image import image as image_pkg
        from term_image import utils
        from term_image.image import ITerm2Image, KittyImage, iterm2, kitty

        self.ti, self.utils, self.ctlseqs, self.image_pkg = term_image, utils, ctlseqs, image_pkg
        self.KittyImage, self.ITerm2Image, self.kitty, self.iterm2 = KittyImage, ITerm2Image, kitty, iterm2
        self.real_patterns = install_patterns(ctlseqs, concrete)

    def reset(self):
        u = self.utils
        u._queries_enabled = True
        u._swap_win_size = False
        u._cell_size_cache[:] = [0] * 4
        u.get_fg_bg_colors._invalidate_cache()
        u.get_terminal_name_version._invalidate_cache()
        for c in (self.KittyImage, self.ITerm2Image):
            c._supported = None
            c._TERM = c._TERM_VERSION = ""
        self.KittyImage._KITTY_VERSION = ()

    def delays(self, eng, n):
        ds = [eng.int(f"delay{i}", 0) for i in range(n)]
        total = 0
        for d in ds:
            total = total + d
        eng.assume(total < TIMEOUT)
        return ds

    # ------------------------------------------------------------------ colours
    def colors(self, eng, shape):
        u = self.utils
        pty = pm.Pty(eng, TIMEOUT)
        pty.install(u)
        k = shape["k"]
        fg_ok, bg_ok, da_ok = eng.bool("fg_query_supported"), eng.bool("bg_query_supported"), eng.bool("da1_supported")
        bel = eng.bool("bel_terminated")
        comps = {}
        units = []

        def osc(code, tag):
            parts, vals = [], []
            for ch in "rgb":
                cs, v = pm.digits(eng, f"{tag}_{ch}", k, hexa=True)
                parts.append(cs)
                vals.append(v)
            comps[tag] = vals
            body = pm.text(f"{ESC}]{code};rgb:") + parts[0] + pm.text("/") + parts[1] + pm.text("/") + parts[2]
            return body + (pm.text("\x07") if bool(bel) else pm.text(ESC + "\\"))

        if bool(fg_ok):
            units.append(osc(10, "fg"))
        if bool(bg_ok):
            units.append(osc(11, "bg"))
        if bool(da_ok):
            units.append(pm.text(f"{ESC}[?62;4c"))
        ds = self.delays(eng, len(units))
        pty.responder = lambda data: list(zip(ds, units)) if b"]10;?" in data else []
        t0 = pty.now
        try:
            res = u.get_fg_bg_colors()
            blocked = False
        except pm.Blocked:
            res, blocked = None, True
        eng.reachable()
        eng.claim("colours: the call returns (does not wait forever)", not blocked)
        if blocked:
            return
        elapsed = pty.now - t0
        eng.claim("colours: returns within the query timeout (plus nothing)", elapsed <= TIMEOUT)
        scale = 16**k - 1
        for tag, ok, got in (("fg", fg_ok, res[0]), ("bg", bg_ok, res[1])):
            if bool(ok):
                if got is None:
                    eng.claim(f"colours: the replied {tag} colour is reported", False)
                else:
                    eng.claim(f"colours: {tag} components = value * 255 // (16^k - 1), each within 0..255",
                              z3.And(*[z3.And(term(g) == (term(v) * 255) / scale, term(g) >= 0, term(g) <= 255) for g, v in zip(got, comps[tag])]))
            else:
                eng.claim(f"colours: an unanswered {tag} query yields None", got is None)
        if bool(da_ok):
            eng.claim("colours: no reply bytes remain unread on the terminal", pty.pending_bytes() == 0)
        eng.claim("colours: terminal attributes restored", pty.same_attrs(pty.attr, pty.attr0))
        # memoized: a second call does not query again
        n_writes = len(pty.written)
        u.get_fg_bg_colors()
        eng.claim("colours: the answer is memoized (no second query)", len(pty.written) == n_writes)
        eng.observe("writes", len(pty.written))

    def colors_disabled(self, eng, shape):
        u = self.utils
        pty = pm.Pty(eng, TIMEOUT)
        pty.install(u)
        self.ti.disable_queries()
        res = u.get_fg_bg_colors()
        nm = u.get_terminal_name_version()
        cs = u.get_cell_size()
        eng.reachable()
        eng.claim("queries disabled: nothing is written to or read from the terminal, attributes untouched", len(pty.written) == 0 and "read" not in pty.log and "tcsetattr" not in pty.log)
        eng.claim("queries disabled: colours fall back to (None, None)", res == (None, None))
        self.ti.enable_queries()

    # ----------------------------------------------------------------- identity
    def identity(self, eng, shape):
        u = self.utils
        pty = pm.Pty(eng, TIMEOUT)
        pty.install(u)
        name, ver = shape["name"], shape["version"]
        xt_ok, da_ok, gfx_ok = eng.bool("xtversion_supported"), eng.bool("da1_supported"), eng.bool("kitty_graphics_supported")
        paren = eng.bool("paren_form")
        d = [eng.int(f"delay{i}", 0) for i in range(4)]
        eng.assume(d[0] + d[1] < TIMEOUT)
        eng.assume(d[2] + d[3] < TIMEOUT)

        def responder(data):
            out = []
            if b">q" in data:
                if bool(xt_ok):
                    body = f"{ESC}P>|{name}({ver}){ESC}\\" if bool(paren) else f"{ESC}P>|{name} {ver}{ESC}\\"
                    out.append((d[0], pm.text(body)))
                if bool(da_ok):
                    out.append((d[1], pm.text(f"{ESC}[?62;4c")))
            elif b"a=q" in data:
                if bool(gfx_ok):
                    out.append((d[2], pm.text(f"{ESC}_Gi=31;OK{ESC}\\")))
                if bool(da_ok):
                    out.append((d[3], pm.text(f"{ESC}[?62;4c")))
            return out

        pty.responder = responder
        env = dict(u.os.environ)
        env.pop("TERM_PROGRAM", None)
        env.pop("TERM_PROGRAM_VERSION", None)
        u.os.environ = env
        for m in (self.kitty, self.iterm2):
            m.get_terminal_name_version = u.get_terminal_name_version
            if hasattr(m, "query_terminal"):
                m.query_terminal = u.query_terminal
        if bool(eng.bool("asked_before_while_queries_were_disabled")):
            # an earlier phase with queries disabled: the defaults obtained then must not outlive re-enabling
            import term_image as ti

            ti.disable_queries()
            try:
                u.get_terminal_name_version()
                u.get_fg_bg_colors()
            finally:
                ti.enable_queries()
        try:
            got = u.get_terminal_name_version()
            ks = self.KittyImage.is_supported()
            its = self.ITerm2Image.is_supported()
            import term_image.image as IP

            auto = IP.auto_image_class()
            blocked = False
        except pm.Blocked:
            blocked = True
        eng.reachable()
        eng.claim("identity: the calls return (do not wait forever)", not blocked)
        if blocked:
            return
        lname = name.lower()
        if bool(xt_ok):
            eng.claim("identity: name (lower-cased) and version exactly as the terminal sent them", got[0] == lname and got[1] == ver)
        else:
            eng.claim("identity: without an answer (and no TERM_PROGRAM) name and version are None", got == (None, None))
        known_name = lname if bool(xt_ok) else None

        def vtuple(v):
            try:
                return tuple(map(int, v.split(".")))
            except ValueError:
                return None

        exp_kitty = False
        if known_name != "iterm2" and bool(gfx_ok):
            if known_name == "kitty":
                vt = vtuple(ver)
                exp_kitty = vt is not None and vt >= (0, 20, 0)
            elif known_name == "konsole":
                exp_kitty = True
        exp_iterm2 = False
        if known_name in ("iterm2", "wezterm"):
            exp_iterm2 = True
        elif known_name == "konsole":
            vt = vtuple(ver)
            exp_iterm2 = vt is not None and vt >= (22, 4, 0)
        eng.claim("identity: kitty style supported iff the graphics query is answered OK and the terminal is kitty >= 0.20.0 or konsole (never iterm2)", ks == exp_kitty)
        eng.claim("identity: iterm2 style supported iff the terminal is iterm2, wezterm or konsole >= 22.04.0", its == exp_iterm2)
        exp_auto = "KittyImage" if exp_kitty else ("ITerm2Image" if exp_iterm2 else "BlockImage")
        eng.claim("identity: automatic style selection picks kitty, then iterm2, then block", auto.__name__ == exp_auto)
        if bool(da_ok):
            eng.claim("identity: no reply bytes remain unread on the terminal", pty.pending_bytes() == 0)
        eng.claim("identity: terminal attributes restored", pty.same_attrs(pty.attr, pty.attr0))
        eng.observe("writes", len(pty.written))

    # ---------------------------------------------------------------- cell size
    def cell_size(self, eng, shape):
        u = self.utils
        pty = pm.Pty(eng, TIMEOUT)
        pty.install(u)
        cols, rows = eng.int("cols", 1, 1 << 12), eng.int("rows", 1, 1 << 12)
        u.get_terminal_size = lambda: TS((cols, rows))
        xpix, ypix = eng.int("ioctl_xpixel", 0, 1 << 14), eng.int("ioctl_ypixel", 0, 1 << 14)

        def ioctl(fd, req, buf):
            buf[2:] = [xpix, ypix]
            return 0

        u.fcntl = type("fcntl", (), {"ioctl": staticmethod(ioctl)})
        u.array = lambda typ, init: list(init)
        swap = bool(eng.bool("win_size_swap"))
        u._swap_win_size = swap
        nd = shape["digits"]
        cell_ok, area_ok, da_ok = eng.bool("cell_size_query_supported"), eng.bool("text_area_query_supported"), eng.bool("da1_supported")
        units = []
        vals = {}
        if bool(cell_ok):
            h, hv = pm.digits(eng, "cell_h", nd)
            w, wv = pm.digits(eng, "cell_w", nd)
            vals["cell"] = (wv, hv)
            units.append(pm.text(f"{ESC}[6;") + h + pm.text(";") + w + pm.text("t"))
        if bool(area_ok):
            h, hv = pm.digits(eng, "area_h", nd + 1)
            w, wv = pm.digits(eng, "area_w", nd + 1)
            vals["area"] = (wv, hv)
            units.append(pm.text(f"{ESC}[4;") + h + pm.text(";") + w + pm.text("t"))
        if bool(da_ok):
            units.append(pm.text(f"{ESC}[?62;4c"))
        ds = self.delays(eng, len(units))
        pty.responder = lambda data: list(zip(ds, units)) if b"16t" in data else []
        env = dict(u.os.environ)
        env["SHELL"] = "/bin/sh"
        u.os.environ = env
        try:
            got = u.get_cell_size()
            blocked = False
        except pm.Blocked:
            got, blocked = None, True
        eng.reachable()
        eng.claim("cell size: the call returns (does not wait forever)", not blocked)
        if blocked:
            return
        ioctl_known = sym_and(xpix != 0, ypix != 0)
        if bool(ioctl_known):
            tw, th = (ypix, xpix) if swap else (xpix, ypix)
            cw, ch = tw // cols, th // rows
            eng.claim("cell size: with an ioctl pixel size no query is sent", len(pty.written) == 0)
        elif bool(cell_ok):
            cw, ch = vals["cell"]
        elif bool(area_ok):
            tw, th = vals["area"]
            if swap:
                tw, th = th, tw
            cw, ch = tw // cols, th // rows
        else:
            cw = ch = 0
        undetermined = core.sym_or(cw == 0, ch == 0)
        if got is None:
            eng.claim("cell size: None only when the documented rules leave it undetermined", undetermined)
        else:
            eng.claim("cell size: as the documented rules prescribe (ioctl, else cell-size reply, else text-area reply / terminal size; swap applied)",
                      sym_and(core.sym_not(undetermined), got[0] == cw, got[1] == ch))
        if bool(da_ok) and not bool(ioctl_known):
            eng.claim("cell size: no reply bytes remain unread on the terminal", pty.pending_bytes() == 0)
        eng.claim("cell size: returns within the query timeout", pty.now <= TIMEOUT)
        eng.claim("cell size: terminal attributes restored", pty.same_attrs(pty.attr, pty.attr0))
        eng.observe("writes", len(pty.written))

    def body(self, eng, shape):
        self.reset()
        return getattr(self, shape["fn"])(eng, shape)


CHECK = C12()
