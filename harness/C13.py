"""C13 - terminal attributes are always put back exactly as found."""
from __future__ import annotations

import sys

import z3

from sx import core
from sx.core import SymBool, sym_and, term
from sx.driver import Check

from . import pty_model as pm
from .C12 import install_patterns

ESC = "\x1b"
TIMEOUT = 100


class Predicate(Exception):
    pass


class C13(Check):
    id = "C13"
    level = "fault_enumeration"
    functions = [
        "term_image.utils:query_terminal",
        "term_image.utils:read_tty",
        "term_image.utils:write_tty",
        "term_image.utils:get_fg_bg_colors",
        "term_image.renderable._renderable:Renderable.draw",
    ]
    explanation = (
        "query_terminal, read_tty (timeout None / >= 0 / < 0, min, echo), get_fg_bg_colors and Renderable.draw (echo suppression) run "
        "against the termios/pty model with a fully symbolic initial attribute vector (flag words, VMIN, VTIME as z3 integers; the "
        "library's bit operations are uninterpreted, so only an exact restore makes the vectors equal).  A z3 integer selects the "
        "system call (tcgetattr, tcsetattr, write, tcdrain, select, read) at which KeyboardInterrupt or OSError is raised, before or "
        "after the call took effect - the engine forks at every call, so all fault positions are covered; the caller's `more` predicate "
        "may raise at a symbolic invocation index.  On every path out of the operation - return, timeout, exception - the current "
        "attribute vector must equal the initial one component-wise (unsat query)."
    )
    rule = (
        "one case = one (operation shape, path, fault position) obligation; the fault position (system-call index, before/after effect, "
        "exception kind) is solver-owned; non-trivial = the path contains at least one solver-made decision (fault position, timing) "
        "or the claim needed a solver call; distinct = distinct (shape, decision prefix, claim)"
    )
    assumptions = [
        "termios/pty model harness/pty_model.py: tcgetattr returns copies, tcsetattr stores a copy",
        "faults are injected at every system-call boundary up to, but not 'before the effect of', the restoring tcsetattr itself (no Python code can handle an asynchronous signal inside its own clean-up call)",
        "flag-word bit operations (&, |, ~) are uninterpreted functions",
    ]
    bounds = {"quick": {}, "thorough": {}}
    max_paths = 100000

    def budget(self, tier):
        return (280, 10000) if tier == "quick" else (3000, 60000)

    def shapes(self, tier):
        out = [{"op": "query"}, {"op": "colors"}]
        for tmo in ("none", "pos", "neg"):
            for mn in (0, 2):
                for echo in (False, True):
                    out.append({"op": "read", "timeout": tmo, "min": mn, "echo": echo})
        out.append({"op": "predicate"})
        for tty in (True,):
            for anim in (False, True):
                out.append({"op": "draw", "animated": anim})
        return out

    def setup(self, shape, concrete):
        import term_image
        import term_image.renderable._renderable as RM
        from term_image import _ctlseqs as ctlseqs
        from term_image import geometry, utils
        from term_image.renderable import Frame, Renderable

        self.ti, self.utils, self.ctlseqs, self.RM = term_image, utils, ctlseqs, RM
        self.Frame, self.Renderable, self.geometry = Frame, Renderable, geometry
        install_patterns(ctlseqs, concrete)

    def body(self, eng, shape):
        u = self.utils
        u._queries_enabled = True
        u.get_fg_bg_colors._invalidate_cache()
        for obj in list(vars(u).values()):  # nothing memoized by an earlier path may leak into this one
            inv = getattr(obj, "_invalidate_cache", None)
            if callable(inv):
                inv()
        pty = pm.Pty(eng, TIMEOUT)
        t = pty.install(u)
        pty.fault_at = eng.int("fault_at_syscall", -1)
        pty.fault_after = bool(eng.bool("fault_after_effect"))
        pty.fault_exc = [KeyboardInterrupt, OSError][eng.choice("fault_kind", 2)]
        n_units = 2
        d = [eng.int(f"delay{i}", 0) for i in range(n_units)]
        answered = eng.bool("terminal_answers")
        units = [pm.text(f"{ESC}]11;rgb:00/00/00{ESC}\\"), pm.text(f"{ESC}[?62;4c")]
        pty.responder = lambda data: list(zip(d, units)) if bool(answered) else []
        op = shape["op"]
        outcome = "returned"
        try:
            if op == "query":
                u.query_terminal(b"\x1b]11;?\x1b\\\x1b[c", lambda s: not s.endswith(b"c"), eng.int("timeout", 0, 200) if bool(eng.bool("explicit_timeout")) else None)
            elif op == "colors":
                u.get_fg_bg_colors()
            elif op == "read":
                pty.queue.append([eng.int("input_arrival", 0), pm.text("abc"), 0])
                tmo = {"none": None, "pos": eng.int("timeout", 0, 200), "neg": -1}[shape["timeout"]]
                u.read_tty(lambda s: len(s) < 3, tmo, shape["min"], echo=shape["echo"])
            elif op == "predicate":
                pty.queue.append([eng.int("input_arrival", 0), pm.text("abcd"), 0])
                k = eng.int("predicate_raises_at", 0, 5)
                calls = [0]

                def more(s):
                    calls[0] += 1
                    if bool(k == calls[0] - 1):
                        raise Predicate()
                    return len(s) < 4

                u.read_tty(more, eng.int("timeout", 1, 200))
            else:
                self.draw(eng, shape, pty, t)
        except pm.Blocked:
            outcome = "blocked"
        except (KeyboardInterrupt, OSError, Predicate) as e:
            outcome = type(e).__name__
        eng.reachable()
        if outcome == "blocked":
            # only legitimate when the caller asked for an unbounded wait and nothing will ever arrive
            eng.claim("an unbounded wait happens only on request (negative timeout / min bytes that never come)", op == "read" and (shape["timeout"] == "neg" or shape["min"] > 0))
        eng.claim(f"terminal attributes are exactly as found ({op})", pty.same_attrs(pty.attr, pty.attr0))
        if op in ("query", "read") and outcome in ("returned", "KeyboardInterrupt", "OSError"):
            # later on the application switches the terminal to another mode and the library is used again (no fault this
            # time): the attributes found *then* are the ones to put back
            pty.attr0 = [eng.int(nm + "_later", 0) for nm in ("iflag", "oflag", "cflag", "lflag", "ispeed", "ospeed")] + \
                        [[eng.int(f"cc{i}_later", 0, 255) if i in (pm.VMIN, pm.VTIME) else i for i in range(8)]]
            pty.attr = pty._copy(pty.attr0)
            pty.fault_at = None
            pty.queue.clear()
            try:
                u.read_tty(lambda s: False, 0)
            except pm.Blocked:
                pass
            eng.claim("a later operation, after the application changed the terminal mode, restores the attributes found at that time",
                      pty.same_attrs(pty.attr, pty.attr0))
        eng.observe("syscalls", pty.calls)

    def draw(self, eng, shape, pty, t):
        RM, G, Frame, Renderable = self.RM, self.geometry, self.Frame, self.Renderable
        RM.termios = t
        RM.get_terminal_size = lambda: __import__("os").terminal_size((80, 24))
        RM.sleep = lambda s: None
        n = 2 if shape["animated"] else 1
        finalizer_fails = bool(eng.bool("render_data_finalizer_fails"))

        class Out:
            def __init__(s):
                s.n = 0

            def write(s, x):
                pty._syscall("stdout.write", lambda: None)

            def flush(s):
                pty._syscall("stdout.flush", lambda: None)

            def isatty(s):
                return True

            def fileno(s):
                return 99

        class Box(Renderable):
            def __init__(s):
                super().__init__(n, 1)

            def _get_render_size_(s):
                return G.Size(1, 1)

            def _render_(s, render_data, render_args):
                pty._syscall("render", lambda: None)
                return Frame(0, 1, G.Size(1, 1), "x")

            @classmethod
            def _finalize_render_data_(cls, render_data):
                # the render class's own clean-up hook may fail: the terminal is restored all the same
                super()._finalize_render_data_(render_data)
                if finalizer_fails:
                    raise OSError("releasing the render data failed")

        old = sys.stdout
        sys.stdout = Out()
        try:
            Box().draw(loops=1, echo_input=bool(eng.bool("echo_input")), hide_cursor=bool(eng.bool("hide_cursor")))
        finally:
            sys.stdout = old


CHECK = C13()
