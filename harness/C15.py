"""C15 - cached terminal facts never outlive the condition they were computed under."""
from __future__ import annotations

import z3

from sx import core
from sx.core import SymBool, sym_and, sym_or, term
from sx.driver import Check

OPS = ["resize", "toggle_swap", "toggle_queries", "set_cell_ratio", "get_cell_size", "get_cell_ratio", "get_name"]


class TS(tuple):
    columns = property(lambda s: s[0])
    lines = property(lambda s: s[1])

    def __add__(self, o):
        return tuple(self) + tuple(o)


class C15(Check):
    id = "C15"
    level = "model_checking"
    functions = [
        "term_image.utils:get_cell_size",
        "term_image.utils:cached",
        "term_image.utils:terminal_size_cached",
        "term_image:enable_queries",
        "term_image:disable_queries",
        "term_image:enable_win_size_swap",
        "term_image:disable_win_size_swap",
        "term_image:set_cell_ratio",
        "term_image:get_cell_ratio",
        "term_image.utils:get_terminal_name_version",
        "term_image.image.common:TextImage._is_on_kitty",
    ]
    explanation = (
        "The real get_cell_size (with its per-terminal-size cache), the cached / terminal_size_cached decorators, the query and "
        "window-size-swap toggles, set_cell_ratio / get_cell_ratio and the memoized terminal-identity getters run on a symbolic "
        "terminal: size in cells and in pixels are z3 integers, every resize introduces fresh ones (pixel size may change only "
        "together with the size in cells or a toggle, as documented).  A history of k operations chosen by solver-forked selectors is "
        "applied; after every getter the returned value must equal a fresh computation for the current terminal size and settings "
        "(the same integer quotients as z3 terms), memoized bodies must run at most once per argument tuple until invalidated, and "
        "results obtained while queries were disabled must be discarded when they are re-enabled.  Concurrent first calls: the "
        "wrapper of utils.cached is translated from the current source (ast) into a micro-op program and every interleaving of the "
        "caller threads (and an invalidating thread) is decided by a z3 finite-domain BMC query: no schedule runs the body twice for "
        "one argument tuple; satisfying schedules are replayed on the real decorator with real threads under a controller."
    )
    assumptions = [
        "environment stubs: terminal size getter, TIOCGWINSZ ioctl (pixel size, possibly 0 = unknown), query_terminal (answers with the terminal's identity when queries are enabled, None when disabled; the XTWINOPS fallback gets no answer)",
        "pixel size changes only together with the size in cells, a window-size-swap toggle or the re-enabling of queries (documented caching per terminal size)",
        "thread interleavings (part cached_threads, harness/C15b.py): the control skeleton of utils.cached is translated from the current source into micro-ops and all interleavings of <= 3 (4) caller threads with solver-chosen argument tuples (2 distinct values) and an optional invalidating thread are decided by z3 (finite-domain BMC); re-entrant mutex model of threading.RLock; interleaving granularity = lock operations, cache look-ups / stores, body entry / exit; terminal_size_cached's wrapper is not part of the interleaving model",
    ]
    bounds = {"quick": {"steps": 4}, "thorough": {"steps": 6}}
    max_paths = 200000
    fl_functional = True

    def budget(self, tier):
        return (280, 10000) if tier == "quick" else (3300, 60000)

    def shapes(self, tier):
        k = self.bounds[tier]["steps"]
        out = []
        for first in range(len(OPS)):
            for second in range(len(OPS)):
                out.append({"steps": k, "first": first, "second": second})
        # the same histories after a subprocess was started (the start wrapper re-binds the cell-size cache and its lock to
        # process-shared objects): everything must keep working on the re-bound objects
        for first, second in ((4, 1), (4, 2), (1, 4), (0, 4)):
            out.append({"steps": k, "first": first, "second": second, "mp": True})
        from . import C15b

        return out + C15b.shapes(tier) + [{"part": "terminal_size_cached", "steps": 3 if tier == "quick" else 5}]

    def setup(self, shape, concrete):
        import term_image
        from term_image import utils
        from term_image.image import BlockImage, common

        self.ti, self.utils, self.common, self.BlockImage = term_image, utils, common, BlockImage

    def body(self, eng, shape):
        if shape.get("part") == "terminal_size_cached":
            from . import C15b

            return C15b.tsc_body(self, eng, shape)
        if shape.get("part") == "cached_threads":
            from . import C15b

            return C15b.body(self, eng, shape)
        ti, utils, common = self.ti, self.utils, self.common
        # ---- reset library state
        utils._tty_fd = 99
        utils._queries_enabled = True
        utils._swap_win_size = False
        import threading

        utils._cell_size_cache = [0] * 4  # (fresh objects: an earlier path may have re-bound them)
        utils._cell_size_lock = threading.RLock()
        utils._tty_lock = threading.RLock()
        utils._rlock_type = type(utils._tty_lock)
        if shape.get("mp"):
            class SharedLock:
                def __enter__(s_):
                    return s_

                def __exit__(s_, *a):
                    return False

            class SharedArray(list):
                def __init__(s_, typ, init):
                    super().__init__(init)
                    s_._lock = SharedLock()

                def get_lock(s_):
                    return s_._lock

            utils.mp_RLock = SharedLock
            utils.Array = SharedArray
            utils._process_start_wrapper.__wrapped__ = lambda self_, *a, **k: None
            utils._process_start_wrapper(type("P", (), {})())
        ti._cell_ratio = 0.5
        ti.AutoCellRatio.is_supported = None
        utils.get_fg_bg_colors._invalidate_cache()
        utils.get_terminal_name_version._invalidate_cache()
        if hasattr(common.TextImage._is_on_kitty, "_invalidate_cache"):
            common.TextImage._is_on_kitty._invalidate_cache()
        # ---- symbolic terminal
        B = 1 << 16
        gen = [0]

        def fresh_term():
            g = gen[0]
            gen[0] += 1
            return dict(cols=eng.int(f"cols{g}", 1, B), rows=eng.int(f"rows{g}", 1, B), xpix=eng.int(f"xpix{g}", 0, B), ypix=eng.int(f"ypix{g}", 0, B))

        T = fresh_term()
        seen = [None]  # terminal state at the last evaluation of the cell size by the library
        real_gcs = utils.get_cell_size

        def recording_get_cell_size():
            r = real_gcs()
            seen[0] = T  # (only a call that completed has seen the terminal: an interrupted one leaves the cache as it was)
            return r

        ti.get_cell_size = recording_get_cell_size
        name_is_kitty = eng.bool("terminal_is_kitty")
        queries_sent = [0]

        utils.get_terminal_size = lambda: TS((T["cols"], T["rows"]))
        ti.utils.get_terminal_size = utils.get_terminal_size

        def ioctl(fd, req, buf):
            buf[2:] = [T["xpix"], T["ypix"]]
            return 0

        utils.fcntl = type("fcntl", (), {"ioctl": staticmethod(ioctl)})
        utils.array = lambda typ, init: list(init)

        interrupted = [False]
        allow_interrupt = [False]  # only a get_cell_size() call of the history itself is interrupted

        def query_terminal(request, more, timeout=None):
            if not utils._queries_enabled:
                return None
            queries_sent[0] += 1
            if b">q" not in request and allow_interrupt[0] and not interrupted[0] and bool(eng.bool(f"size_query_interrupted{queries_sent[0]}")):
                # Ctrl-C while waiting for the reply to a size query (at most once per history)
                interrupted[0] = True
                raise KeyboardInterrupt
            if b">q" in request:  # XTVERSION
                return (b"\x1bP>|kitty(0.30.0)\x1b\\" if bool(name_is_kitty) else b"\x1bP>|foot(1.16)\x1b\\") + b"\x1b["
            return b""  # no answer to the XTWINOPS fallback

        utils.query_terminal = query_terminal
        utils.read_tty = lambda *a, **k: b""
        # integer quotients are uninterpreted (only cache staleness is at stake here, not the arithmetic):
        # the library's floordiv and the oracle's use the same function symbol
        UDIV = z3.Function("floordiv", z3.IntSort(), z3.IntSort(), z3.IntSort())

        def floordiv(a, b):
            if eng.concrete is not None:
                return a // b
            return core.SymInt(UDIV(term(a), term(b)))

        utils.floordiv = floordiv
        name_cache = ["unset"]
        kitty_cache = ["unset"]

        def fresh_cell_size():
            """what a fresh computation gives for the current terminal and settings (None = undetermined)"""
            xp, yp = (T["ypix"], T["xpix"]) if utils._swap_win_size else (T["xpix"], T["ypix"])
            known = sym_and(T["xpix"] != 0, T["ypix"] != 0)
            cw, ch = floordiv(xp, T["cols"]), floordiv(yp, T["rows"])
            return known, cw, ch

        ratio_mode = ["float", 0.5]  # ('float', v) | ('fixed', snapshot) | ('dynamic',)

        def check_cell_size(tag):
            allow_interrupt[0] = True
            try:
                got = recording_get_cell_size()
            except KeyboardInterrupt:
                return None  # the interrupted call itself yields nothing; later calls must still be fresh
            finally:
                allow_interrupt[0] = False
            known, cw, ch = fresh_cell_size()
            det = sym_and(known, cw != 0, ch != 0)
            if got is None:
                eng.claim(f"{tag}: get_cell_size() is None only if a fresh computation is undetermined", core.sym_not(det))
            else:
                eng.claim(f"{tag}: get_cell_size() equals a fresh computation for the current size and settings", sym_and(det, got[0] == cw, got[1] == ch))
            return got

        def fresh_ratio():
            known, cw, ch = fresh_cell_size()
            det = bool(sym_and(known, cw != 0, ch != 0))
            return (cw / ch) if det else 0.5

        for i in range(shape["steps"]):
            op = shape["first"] if i == 0 else (shape["second"] if i == 1 else eng.choice(f"op{i}", len(OPS)))
            name = OPS[op]
            tag = f"step {i} {name}"
            eng.step(name)
            if name == "resize":
                T = fresh_term()
                old = seen[0]
                if old is not None:
                    # pixel size may differ from what the library last saw only if the size in cells differs too
                    same_cells = sym_and(T["cols"] == old["cols"], T["rows"] == old["rows"])
                    eng.assume(core.sym_implies(same_cells, sym_and(T["xpix"] == old["xpix"], T["ypix"] == old["ypix"])))
            elif name == "toggle_swap":
                (ti.disable_win_size_swap if utils._swap_win_size else ti.enable_win_size_swap)()
                # a pixel-size change may coincide with the toggle (same size in cells)
                T = dict(T, xpix=eng.int(f"xpix_at_toggle{i}", 0, B), ypix=eng.int(f"ypix_at_toggle{i}", 0, B))
            elif name == "toggle_queries":
                if utils._queries_enabled:
                    ti.disable_queries()
                else:
                    ti.enable_queries()
                    name_cache[0] = kitty_cache[0] = "unset"  # results obtained while disabled are discarded
                    # ... including the cell size: a pixel-size change may coincide with re-enabling (same size in cells)
                    T = dict(T, xpix=eng.int(f"xpix_at_toggle{i}", 0, B), ypix=eng.int(f"ypix_at_toggle{i}", 0, B))
            elif name == "set_cell_ratio":
                k = eng.choice(f"ratio_kind{i}", 3)
                try:
                    if k == 0:
                        ti.set_cell_ratio(ti.AutoCellRatio.FIXED)
                        ratio_mode = ["fixed", fresh_ratio()]
                    elif k == 1:
                        ti.set_cell_ratio(ti.AutoCellRatio.DYNAMIC)
                        ratio_mode = ["dynamic"]
                    else:
                        ti.set_cell_ratio(0.75)
                        ratio_mode = ["float", 0.75]
                except ti.TermImageError:
                    # auto cell ratio unsupported: decided once from the cell size at the first request
                    pass
            elif name == "get_cell_size":
                check_cell_size(tag)
            elif name == "get_cell_ratio":
                try:
                    got = ti.get_cell_ratio()
                except KeyboardInterrupt:
                    continue
                exp = ratio_mode[1] if ratio_mode[0] != "dynamic" else fresh_ratio()
                eng.claim(f"{tag}: get_cell_ratio() = the set value / the FIXED snapshot / a fresh DYNAMIC computation", core.rterm(got) == core.rterm(exp))
            elif name == "get_name":
                before = queries_sent[0]
                nm = utils.get_terminal_name_version()[0]
                again = utils.get_terminal_name_version()[0]
                if name_cache[0] == "unset":
                    name_cache[0] = ("kitty" if bool(name_is_kitty) else "foot") if utils._queries_enabled else None
                exp = name_cache[0]
                eng.claim(f"{tag}: terminal name = what the terminal said when last asked since queries were (re-)enabled", nm == exp and again == exp)
                eng.claim(f"{tag}: the memoized getter queries at most once until invalidated", queries_sent[0] - before <= 1)
                onk = self.BlockImage._is_on_kitty()
                eng.claim(f"{tag}: the kitty-terminal fact used by block renders follows the terminal name", onk == (exp == "kitty"))
            elif name == "get_cell_ratio" and False:
                pass
        eng.reachable()
        check_cell_size("final")
        eng.observe("queries", queries_sent[0])


CHECK = C15()
