"""C15 part (b): a memoized function runs its body at most once per argument tuple, under every thread interleaving.

The control skeleton of `term_image.utils.cached` (its wrapper and its invalidate function) is TRANSLATED FROM THE
CURRENT SOURCE with `ast` into a small micro-op program (acquire / release of the decorator's lock, cache look-up with
its miss edge, membership test, body call, store / store-if-absent, clear).  The interleavings of n caller threads
(argument tuples chosen by the solver) and an optional invalidating thread are explored by z3 over an unrolled
transition relation with one scheduler-choice variable per step (finite-domain encoding).  A satisfying trace is
replayed on the REAL decorator: real threads, an instrumented re-entrant lock class substituted for `RLock`, and
line-level parking (sys.settrace) at the look-ups, under a controller that enforces the solver's schedule.
"""
from __future__ import annotations

import ast
import os
import sys
import threading
import time

import z3

from .C14 import Abort, Controller


class SkeletonError(Exception):
    pass


# ----------------------------------------------------------------------------------------
# 1. translation of the decorator's source into micro-ops


def _func(node, name):
    for n in ast.walk(node):
        if isinstance(n, ast.FunctionDef) and n.name == name:
            return n
    raise SkeletonError(f"function {name} not found")


class Translator:
    """ops: [kind, lineno, next, alt] with kinds
    acq / rel (lock), lookup (hit -> next, miss -> alt = handler or 'raise'), test_in (in cache -> next, else alt),
    body_begin, body_end, store, store_if_absent, clear, end"""

    def __init__(self, src):
        tree = ast.parse(src)
        dec = _func(tree, "cached")
        self.lock = self.cache = None
        for st in dec.body:
            tgt, val = None, None
            if isinstance(st, ast.Assign) and len(st.targets) == 1 and isinstance(st.targets[0], ast.Name):
                tgt, val = st.targets[0].id, st.value
            elif isinstance(st, ast.AnnAssign) and isinstance(st.target, ast.Name):
                tgt, val = st.target.id, st.value
            if tgt and isinstance(val, ast.Call) and getattr(val.func, "id", "") == "RLock":
                self.lock = tgt
            if tgt and isinstance(val, ast.Dict) and not val.keys:
                self.cache = tgt
        if not self.lock or not self.cache:
            raise SkeletonError("cached: lock / cache objects not recognised")
        w = _func(dec, "cached_wrapper")
        self.key = None
        self.func_param = dec.args.args[0].arg
        self.wrapper_ops = self.compile_function(w)
        inv = None
        for st in dec.body:
            if isinstance(st, ast.FunctionDef) and st.name != "cached_wrapper":
                inv = st
        if inv is None:
            raise SkeletonError("cached: invalidate function not found")
        self.invalidate_name = inv.name
        self.invalidate_ops = self.compile_function(inv)

    # -- helpers
    def is_cache(self, n):
        return isinstance(n, ast.Name) and n.id == self.cache

    def is_key(self, n):
        return isinstance(n, ast.Name) and n.id == self.key

    def compile_function(self, fn):
        self.ops = []
        self.end_fixups = []
        self.compile_block(fn.body, withs=0, handler=None)
        end = len(self.ops)
        self.ops.append(["end", 0, None, None])
        for i, field in self.end_fixups:
            self.ops[i][field] = end
        for i, op in enumerate(self.ops):
            if op[2] is None and op[0] != "end":
                op[2] = i + 1
        return simplify_program(self.ops)

    def emit(self, kind, lineno, alt=None):
        self.ops.append([kind, lineno, None, alt])
        return len(self.ops) - 1

    def compile_block(self, stmts, withs, handler):
        for st in stmts:
            self.compile_stmt(st, withs, handler)

    def compile_stmt(self, st, withs, handler):
        if isinstance(st, ast.Expr) and isinstance(st.value, ast.Constant):
            return  # docstring
        if isinstance(st, (ast.Nonlocal, ast.Global, ast.Pass)):
            return
        if isinstance(st, ast.With):
            if len(st.items) != 1 or not (isinstance(st.items[0].context_expr, ast.Name) and st.items[0].context_expr.id == self.lock) or st.items[0].optional_vars:
                raise SkeletonError(f"line {st.lineno}: unsupported with statement")
            self.emit("acq", st.lineno)
            self.compile_block(st.body, withs + 1, handler)
            self.emit("rel", st.lineno)
            return
        if isinstance(st, ast.Try):
            if st.orelse or st.finalbody or len(st.handlers) != 1 or getattr(st.handlers[0].type, "id", "") != "KeyError":
                raise SkeletonError(f"line {st.lineno}: unsupported try statement")
            start = len(self.ops)
            self.compile_block(st.body, withs, handler="PENDING")
            # fall-through of the try body jumps over the handler
            jump_from = len(self.ops)
            self.emit("nop", st.lineno)
            h = len(self.ops)
            for i in range(start, jump_from):
                if self.ops[i][3] == "PENDING":
                    self.ops[i][3] = h
            self.compile_block(st.handlers[0].body, withs, handler)
            self.ops[jump_from][2] = len(self.ops)
            return
        if isinstance(st, ast.If):
            t = st.test
            neg = False
            if isinstance(t, ast.UnaryOp) and isinstance(t.op, ast.Not):
                t, neg = t.operand, True
            if not (isinstance(t, ast.Compare) and len(t.ops) == 1 and isinstance(t.ops[0], (ast.In, ast.NotIn)) and self.is_key(t.left) and self.is_cache(t.comparators[0])):
                raise SkeletonError(f"line {st.lineno}: unsupported if test")
            if isinstance(t.ops[0], ast.NotIn):
                neg = not neg
            ti = self.emit("test_in", st.lineno)
            first, second = (st.orelse, st.body) if neg else (st.body, st.orelse)
            # in cache -> `first`, else -> `second`
            self.compile_block(first, withs, handler)
            j = self.emit("nop", st.lineno)
            self.ops[ti][3] = len(self.ops)
            self.compile_block(second, withs, handler)
            self.ops[j][2] = len(self.ops)
            return
        if isinstance(st, ast.Return):
            if st.value is not None:
                self.compile_expr(st.value, handler)
            for _ in range(withs):
                self.emit("rel", st.lineno)
            i = self.emit("nop", st.lineno)
            self.end_fixups.append((i, 2))
            return
        if isinstance(st, (ast.Assign, ast.AnnAssign)):
            targets = st.targets if isinstance(st, ast.Assign) else [st.target]
            if st.value is None:
                return
            tg = targets[0]
            if len(targets) == 1 and isinstance(tg, ast.Subscript) and self.is_cache(tg.value):
                if not self.is_key(tg.slice):
                    raise SkeletonError(f"line {st.lineno}: store under an unrecognised key")
                self.compile_expr(st.value, handler)
                self.emit("store", st.lineno)
                return
            if len(targets) == 1 and isinstance(tg, ast.Name):
                if self.key is None and isinstance(st.value, ast.Tuple) and not self.touches_shared(st.value):
                    self.key = tg.id  # the argument tuple
                    return
                self.compile_expr(st.value, handler)
                return
            raise SkeletonError(f"line {st.lineno}: unsupported assignment")
        if isinstance(st, ast.Expr):
            self.compile_expr(st.value, handler)
            return
        raise SkeletonError(f"line {st.lineno}: unsupported statement {type(st).__name__}")

    def touches_shared(self, e):
        return any((isinstance(n, ast.Name) and n.id in (self.cache, self.lock, self.func_param)) for n in ast.walk(e))

    def compile_expr(self, e, handler):
        if not self.touches_shared(e):
            return
        if isinstance(e, ast.Subscript) and self.is_cache(e.value) and self.is_key(e.slice):
            self.emit("lookup", e.lineno, alt=handler if handler is not None else "raise")
            return
        if isinstance(e, ast.Call):
            f = e.func
            if isinstance(f, ast.Name) and f.id == self.func_param:
                self.emit("body_begin", e.lineno)
                self.emit("body_end", e.lineno)
                return
            if isinstance(f, ast.Attribute) and self.is_cache(f.value):
                if f.attr == "setdefault" and len(e.args) == 2 and self.is_key(e.args[0]):
                    self.compile_expr(e.args[1], handler)
                    self.emit("store_if_absent", e.lineno)
                    return
                if f.attr == "clear" and not e.args:
                    self.emit("clear", e.lineno)
                    return
                if f.attr == "get" and e.args and self.is_key(e.args[0]):
                    self.emit("lookup", e.lineno, alt=None)  # a miss does not raise: both edges continue
                    return
        raise SkeletonError(f"line {e.lineno}: unsupported expression touching the cache: {ast.dump(e)[:120]}")


def simplify_program(ops):
    """(1) jump placeholders (nop) are threaded away, so that every remaining op is one observable action of the real
    code; (2) body_end directly followed by a store on the same line becomes one step - the return of the body has no
    shared effect, so any look-up of another thread scheduled between the two could equally be scheduled just before
    the body's return: no interleaving is lost."""
    ops = [list(o) for o in ops]

    def resolve(i):
        seen = set()
        while isinstance(i, int) and ops[i][0] == "nop" and i not in seen:
            seen.add(i)
            i = ops[i][2]
        return i

    for o in ops:
        for f in (2, 3):
            if isinstance(o[f], int):
                o[f] = resolve(o[f])
    for o in ops:
        if o[0] == "body_end" and isinstance(o[2], int) and ops[o[2]][0] in ("store", "store_if_absent") and ops[o[2]][1] == o[1]:
            o[0], o[2] = "body_end_store", ops[o[2]][2]
    # keep only ops reachable from the entry
    entry = resolve(0)
    reach, todo = [], [entry]
    while todo:
        i = todo.pop()
        if i in reach or not isinstance(i, int):
            continue
        reach.append(i)
        todo += [ops[i][2], ops[i][3]]
    reach.sort()
    if reach[0] != entry:
        reach.remove(entry)
        reach.insert(0, entry)
    new = {old: k for k, old in enumerate(reach)}
    out = []
    for old in reach:
        kind, ln, nxt, alt = ops[old]
        out.append((kind, ln, new.get(nxt, nxt) if isinstance(nxt, int) else nxt, new.get(alt, alt) if isinstance(alt, int) else alt))
    # "end" must be last
    e = next(i for i, o in enumerate(out) if o[0] == "end")
    if e != len(out) - 1:
        perm = [i for i in range(len(out)) if i != e] + [e]
        back = {old: k for k, old in enumerate(perm)}
        out = [(out[i][0], out[i][1], back.get(out[i][2], out[i][2]) if isinstance(out[i][2], int) else out[i][2],
                back.get(out[i][3], out[i][3]) if isinstance(out[i][3], int) else out[i][3]) for i in perm]
    return out


# ----------------------------------------------------------------------------------------
# 2. BMC encoding

BW = 5
NONE = 31


def encode(solver, tr, callers, invalidator, K, calls_per_agent=1):
    names = [f"T{i}" for i in range(callers)] + (["INV"] if invalidator else [])
    A = len(names)
    progs = {n: (tr.invalidate_ops if n == "INV" else tr.wrapper_ops) for n in names}
    I = lambda v: z3.BitVecVal(v, BW)  # noqa: E731
    keys = {n: z3.BitVec(f"key_{n}", BW) for n in names if n != "INV"}
    for kv in keys.values():
        solver.add(z3.ULT(kv, 2))
    idx = {n: i for i, n in enumerate(names)}

    def new_state(k):
        return dict(
            pc={a: z3.BitVec(f"pc_{a}_{k}", BW) for a in names},
            owner=z3.BitVec(f"owner_{k}", BW), count=z3.BitVec(f"count_{k}", BW),
            present=[z3.Bool(f"present_{q}_{k}") for q in range(2)],
            runs=[z3.BitVec(f"runs_{q}_{k}", BW) for q in range(2)],
            bad=z3.Bool(f"bad_{k}"),
        )

    s0 = new_state(0)
    solver.add(*[s0["pc"][a] == 0 for a in names], s0["owner"] == NONE, s0["count"] == 0, *[z3.Not(p) for p in s0["present"]], *[r == 0 for r in s0["runs"]], z3.Not(s0["bad"]))
    states, sched = [s0], []

    def free_step(op):
        return op[0] in ("nop",)

    def enabled(s, a):
        conds = []
        for j, op in enumerate(progs[a]):
            at = s["pc"][a] == j
            if op[0] == "end":
                continue
            if op[0] == "acq":
                conds.append(z3.And(at, z3.Or(s["owner"] == NONE, s["owner"] == idx[a])))
            else:
                conds.append(at)
        return z3.Or(*conds) if conds else z3.BoolVal(False)

    for k in range(K):
        s, n = states[-1], new_state(k + 1)
        ch = z3.BitVec(f"sched_{k}", BW)
        solver.add(z3.ULT(ch, A))
        sched.append(ch)
        upd = {("pc", a): s["pc"][a] for a in names}
        upd["owner"], upd["count"], upd["bad"] = s["owner"], s["count"], s["bad"]
        for q in range(2):
            upd[("present", q)], upd[("runs", q)] = s["present"][q], s["runs"][q]

        def put(key, cond, val):
            upd[key] = z3.If(cond, val, upd[key])

        for a in names:
            ai = I(idx[a])
            for j, op in enumerate(progs[a]):
                kind, _ln, nxt, alt = op
                here = z3.And(ch == idx[a], s["pc"][a] == j)
                if kind == "end":
                    continue
                if kind == "acq":
                    c = z3.And(here, z3.Or(s["owner"] == NONE, s["owner"] == ai))
                    put("owner", c, ai)
                    put("count", c, s["count"] + 1)
                    put(("pc", a), c, I(nxt))
                elif kind == "rel":
                    put("count", here, s["count"] - 1)
                    put("owner", z3.And(here, s["count"] == 1), I(NONE))
                    put(("pc", a), here, I(nxt))
                elif kind in ("lookup", "test_in"):
                    kq = keys[a]
                    hit = z3.Or(*[z3.And(kq == q, s["present"][q]) for q in range(2)])
                    miss_target = nxt if alt is None else alt
                    if miss_target == "raise":
                        miss_target = len(progs[a]) - 1  # KeyError leaves the call (locks are released by `with`; not modelled further)
                    put(("pc", a), z3.And(here, hit), I(nxt))
                    put(("pc", a), z3.And(here, z3.Not(hit)), I(miss_target))
                elif kind == "body_begin":
                    for q in range(2):
                        c = z3.And(here, keys[a] == q)
                        put(("runs", q), c, s["runs"][q] + 1)
                        put("bad", z3.And(c, z3.UGE(s["runs"][q], 1)), z3.BoolVal(True))
                    put(("pc", a), here, I(nxt))
                elif kind in ("store", "store_if_absent", "body_end_store"):
                    for q in range(2):
                        put(("present", q), z3.And(here, keys[a] == q), z3.BoolVal(True))
                    put(("pc", a), here, I(nxt))
                elif kind == "clear":
                    for q in range(2):
                        put(("present", q), here, z3.BoolVal(False))
                        put(("runs", q), here, I(0))
                    put(("pc", a), here, I(nxt))
                else:  # body_end, nop
                    put(("pc", a), here, I(nxt))
        solver.add(*[n["pc"][a] == upd[("pc", a)] for a in names], n["owner"] == upd["owner"], n["count"] == upd["count"], n["bad"] == upd["bad"])
        solver.add(*[n["present"][q] == upd[("present", q)] for q in range(2)], *[n["runs"][q] == upd[("runs", q)] for q in range(2)])
        # scheduler discipline: no step is wasted on an agent that cannot move while another can
        chosen_enabled = z3.Or(*[z3.And(ch == idx[a], enabled(s, a)) for a in names])
        solver.add(z3.Or(chosen_enabled, z3.Not(z3.Or(*[enabled(s, a) for a in names]))))
        states.append(n)
    finished = z3.And(*[states[-1]["pc"][a] == len(progs[a]) - 1 for a in names])
    return states[-1]["bad"], finished, dict(names=names, progs=progs, sched=sched, keys=keys, states=states)


# ----------------------------------------------------------------------------------------
# 3. replay on the real decorator


def replay(repo, tr, callers, invalidator, schedule, key_of):
    """-> (violated, trace).  Real threads run the real `cached` wrapper; every lock operation, look-up line and body
    entry / exit is a controller step."""
    names = [f"T{i}" for i in range(callers)] + (["INV"] if invalidator else [])
    ctl = Controller(names)
    me = threading.local()

    class ILock:
        def __init__(self):
            self.owner, self.count = None, 0

        def free_for(self, name):
            return self.owner in (None, name)

        def __enter__(self):
            ctl.park(me.name, self)
            self.owner, self.count = me.name, self.count + 1
            return self

        def __exit__(self, *a):
            ctl.park(me.name)
            self.count -= 1
            if self.count == 0:
                self.owner = None
            return False

    from term_image import utils

    events = []

    def body(key):
        ctl.park(me.name)  # body_begin
        events.append(("body", key))
        ctl.park(me.name)  # body_end (+ the store that follows it)
        return ("value", key)

    old = utils.RLock
    utils.RLock = ILock
    try:
        wrapped = utils.cached(body)
    finally:
        utils.RLock = old
    # lines that are parking points: the first shared op of a line when it is a look-up / test / plain store / clear
    first_on_line = {}
    for prog in (tr.wrapper_ops, tr.invalidate_ops):
        for op in prog:
            if op[0] in ("nop", "end", "acq", "rel"):
                continue
            first_on_line.setdefault(op[1], op[0])
    park_lines = {ln for ln, kind in first_on_line.items() if kind in ("lookup", "test_in", "store", "clear")}
    code_names = {"cached_wrapper", tr.invalidate_name}

    def tracer(frame, event, arg):
        if event == "call" and frame.f_code.co_name in code_names and frame.f_code.co_filename.endswith("utils.py"):
            return local
        return None

    def local(frame, event, arg):
        if event == "line" and frame.f_lineno in park_lines:
            ctl.park(me.name)
        return local

    def run(name):
        me.name = name
        sys.settrace(tracer)
        try:
            if name == "INV":
                wrapped._invalidate_cache()
                events.append(("invalidate",))
            else:
                wrapped(key_of[name])
        except Abort:
            return
        except KeyError:
            pass
        finally:
            sys.settrace(None)
        with ctl.cond:
            ctl.state[name] = "done"
            ctl.cond.notify_all()

    threads = []
    for n in names:
        ctl.state[n] = "running"
        t = threading.Thread(target=run, args=(n,), daemon=True)
        threads.append(t)
        t.start()
    ctl.drive(schedule)
    counts, violated = {}, False
    for ev in events:
        if ev[0] == "invalidate":
            counts = {}
        else:
            counts[ev[1]] = counts.get(ev[1], 0) + 1
            if counts[ev[1]] > 1:
                violated = True
    return violated, ctl.trace, events


# ----------------------------------------------------------------------------------------
# 4. the check part (called from harness/C15.py)

CLAIM = "a memoized function runs its body at most once per argument tuple until invalidated, under every interleaving of concurrent calls"


def shapes(tier):
    out = [{"part": "cached_threads", "callers": 2, "invalidator": False}, {"part": "cached_threads", "callers": 3, "invalidator": False},
           {"part": "cached_threads", "callers": 2, "invalidator": True}]
    if tier != "quick":
        out.append({"part": "cached_threads", "callers": 3, "invalidator": True})
        out.append({"part": "cached_threads", "callers": 4, "invalidator": False})
    return out


def body(check, eng, shape):
    repo = os.environ.get("TERM_IMAGE_REPO", "/repo")
    src = open(os.path.join(repo, "src", "term_image", "utils.py")).read()
    tr = Translator(src)
    callers, inv = shape["callers"], shape["invalidator"]
    K = callers * (len(tr.wrapper_ops) - 1) + (len(tr.invalidate_ops) - 1 if inv else 0)
    if eng.concrete is not None:
        schedule = [int(eng.concrete.get(f"sched_{k}", 0)) for k in range(K)]
        key_of = {f"T{i}": int(eng.concrete.get(f"key_T{i}", 0)) for i in range(callers)}
        violated, trace, events = replay(repo, tr, callers, inv, schedule, key_of)
        if os.environ.get("SX_TRACE"):
            print("C15b replay:", trace, events, file=sys.stderr)
        eng.reachable()
        eng.claim(CLAIM, not violated)
        eng.observe("ops", [len(tr.wrapper_ops), len(tr.invalidate_ops)])
        return
    solver = z3.SolverFor("QF_FD")
    solver.set("timeout", min(eng.claim_timeout_ms, int(getattr(eng, "shape_budget_s", 10**6) * 450)))  # two queries per shape
    bad, finished, info = encode(solver, tr, callers, inv, K)
    eng.mc_states.update((callers, inv, k) for k in range(K + 1))
    eng.mc_transitions.update((callers, inv, k, a, j) for k in range(K) for a in info["names"] for j in range(len(info["progs"][a])))
    t = time.time()
    solver.push()
    solver.add(finished)
    r = solver.check()
    solver.pop()
    eng.record_claim("twin:all agents can finish within the bound", {"sat": "reached", "unsat": "unreachable"}.get(str(r), "unknown"), time.time() - t)
    t = time.time()
    solver.add(bad)
    r = solver.check()
    model = None
    if r == z3.sat:
        m = solver.model()
        model = {f"sched_{k}": m.eval(v, model_completion=True).as_long() for k, v in enumerate(info["sched"])}
        model.update({f"key_{n}": m.eval(v, model_completion=True).as_long() for n, v in info["keys"].items()})
    eng.record_claim(CLAIM, str(r), time.time() - t, model)
    eng.observe("ops", [len(tr.wrapper_ops), len(tr.invalidate_ops)])


# ----------------------------------------------------------------------------------------
# 5. terminal_size_cached under histories that include a resize *during* the memoized body


def tsc_body(check, eng, shape):
    """The real utils.terminal_size_cached around a body whose value depends on the terminal size; history of calls,
    resizes between calls, invalidations, and resizes that hit while the body runs.  A call that was not itself
    interrupted by a resize must return what a fresh computation gives for the current terminal size."""
    from sx.core import sym_and, term

    utils = check.utils

    class TS(tuple):
        columns = property(lambda s: s[0])
        lines = property(lambda s: s[1])

    T = [eng.int("cols0", 1), eng.int("rows0", 1)]
    utils.get_terminal_size = lambda: TS(T)
    runs = [0]
    hit_during = [False]
    step = [0]

    def body():
        runs[0] += 1
        value = (T[0], T[1])  # the memoized fact is a function of the terminal size
        if bool(eng.bool(f"resize_while_the_body_runs{step[0]}_{runs[0]}")):
            T[:] = [eng.int(f"cols_mid{step[0]}_{runs[0]}", 1), eng.int(f"rows_mid{step[0]}_{runs[0]}", 1)]
            hit_during[0] = True
        return value

    wrapped = utils.terminal_size_cached(body)
    for i in range(shape["steps"]):
        step[0] = i
        op = eng.choice(f"op{i}", 3)
        eng.step(("call", "resize", "invalidate")[op])
        if op == 0:
            hit_during[0] = False
            before = runs[0]
            got = wrapped()
            if not hit_during[0]:
                eng.claim(f"step {i}: the value returned equals a fresh computation for the current terminal size", sym_and(got[0] == T[0], got[1] == T[1]))
            eng.claim(f"step {i}: the body runs at most once per call", runs[0] - before <= 1)
        elif op == 1:
            T[:] = [eng.int(f"cols{i}", 1), eng.int(f"rows{i}", 1)]
        else:
            wrapped._invalidate_terminal_size_cache()
    eng.reachable()
    eng.observe("runs", runs[0])
