"""C08 - a render iterator yields exactly the frames its operation history dictates."""
from __future__ import annotations

import z3

from sx import core
from sx.core import sym_and, sym_not, sym_or, term
from sx.driver import Check

from . import iter_common as ic


class C08(Check):
    id = "C08"
    level = "model_checking"
    functions = [
        "term_image.render._iterator:RenderIterator.__init__",
        "term_image.render._iterator:RenderIterator._init",
        "term_image.render._iterator:RenderIterator._iterate",
        "term_image.render._iterator:RenderIterator.__next__",
        "term_image.render._iterator:RenderIterator.seek",
        "term_image.render._iterator:RenderIterator.set_frame_duration",
        "term_image.render._iterator:RenderIterator.set_padding",
        "term_image.render._iterator:RenderIterator.set_render_args",
        "term_image.render._iterator:RenderIterator.set_render_size",
        "term_image.render._iterator:RenderIterator.close",
        "term_image.renderable._renderable:Renderable._init_render_",
        "term_image.renderable._renderable:Renderable._get_render_data_",
        "term_image.renderable._renderable:Renderable.seek",
        "term_image.renderable._renderable:Renderable.tell",
    ]
    explanation = (
        "The real RenderIterator (generator included) is driven by CPython on proxy values next to a reference model written "
        "from its documentation.  Frame count n >= 2 (unbounded; cache off) or INDEFINITE, loops (any non-zero integer), all "
        "offsets, durations, sizes, padding dimensions, terminal size and render-argument values are z3 variables; the operation "
        "applied at each step is a forked selector over the nine public operations.  A prefix 'seek(a); next()' with symbolic a "
        "reaches every (next frame, loop countdown) state including the end-of-loop boundary, so k steps are checked from any "
        "reachable state.  After every operation the frame (number, duration, size, output), the loop countdown and the raised "
        "exception type must equal the model's (unsat queries)."
    )
    assumptions = [
        "reference model harness/iter_common.py:Model (written from the RenderIterator / seek() documentation)",
        "test renderable renders frame k as a string carrying k and the render-argument value; DYNAMIC duration reports a fixed value",
        "operation histories bounded by k steps after the prefix (bound stated); frame count, loops and all arguments unbounded",
        "cache shapes use concrete frame counts 2 and 3 (the cache is a Python list of that length)",
    ]
    bounds = {"quick": {"steps": 2, "prefix_steps": 1, "cached_steps": 2}, "thorough": {"steps": 3, "prefix_steps": 3, "cached_steps": 4}}
    max_paths = 40000

    def budget(self, tier):
        return (240, 10000) if tier == "quick" else (3000, 60000)

    def shapes(self, tier):
        k = self.bounds[tier]["steps"]
        out = []
        for first in range(len(ic.OPS)):
            out.append({"n": "sym", "steps": k, "first": first, "prefix": False, "cache": False})
            out.append({"n": "sym", "steps": self.bounds[tier]["prefix_steps"], "first": first, "prefix": True, "cache": False})
            out.append({"n": "indefinite", "steps": k, "first": first, "prefix": False, "cache": False})
        kc = self.bounds[tier]["cached_steps"]
        for n in (2, 3):
            for first in (0, 1, 2):
                out.append({"n": n, "steps": kc, "first": first, "prefix": False, "cache": True, "loops": 2})
                out.append({"n": n, "steps": kc, "first": first, "prefix": False, "cache": True, "loops": -1})
        return out

    def setup(self, shape, concrete):
        ic.setup_classes(self)

    # ------------------------------------------------------------------ body
    def body(self, eng, shape):
        K = self.K
        R, Seek, FD, FC = K["R"], K["Seek"], K["FrameDuration"], K["FrameCount"]
        G, P = K["geometry"], K["padding"]
        indef = shape["n"] == "indefinite"
        if shape["n"] == "sym":
            n = eng.int("n_frames", 2)
        elif indef:
            n = FC.INDEFINITE
        else:
            n = shape["n"]
        loops = eng.int("loops") if "loops" not in shape else shape["loops"]
        if "loops" not in shape:
            eng.assume(loops != 0)
        w0, h0 = eng.int("size_w", 1), eng.int("size_h", 1)
        size0 = G._Size(w0, h0)
        dur0 = eng.int("duration0", 1)
        tw, th = eng.int("term_cols", 1), eng.int("term_lines", 1)
        tsize = ic.TS((tw, th))
        K["IT"].get_terminal_size = lambda: tsize
        K["RM"].get_terminal_size = lambda: tsize
        r = R(n, dur0, size0)
        R.current = r
        if not indef:
            f0 = eng.int("renderable_frame", 0)
            eng.assume(f0 < n)
            r.seek(f0)
        if indef:
            r.eof = lambda: bool(eng.fresh_bool("eof"))
        it = K["RenderIterator"](r, None, P.ExactPadding(), loops, shape["cache"])
        m = ic.Model(K, n, loops, size0, dur0, P.ExactPadding(), 0)
        eng.claim("constructor: loop countdown starts at loops (1 for INDEFINITE)", it.loop == m.loop)
        self.check_state(eng, it, m, r, "after construction")

        def do_next(tag):
            if not tag.startswith("step"):
                eng.step(tag)
            n_log = len(r.log)
            try:
                fr = next(it)
                got = "frame"
            except StopIteration:
                fr, got = None, "stop"
            eof = False
            if indef and not m.closed:
                # the source decided whether the stream ended at this render
                eof = got == "stop"
            exp = m.op_next(eof)
            eng.claim(f"{tag}: next() yields a frame exactly when the model does", (got == "frame") == (exp is not None))
            if fr is None or exp is None:
                return
            esize, eout = ic.padded(K, exp["padding"], exp["size"], ic.base_output(exp.get("number", r.log[-1][0]), exp["foo"], exp["duration"] is FD.DYNAMIC))
            edur = ic.DYN_DURATION if exp["duration"] is FD.DYNAMIC else exp["duration"]
            if not indef:
                eng.claim(f"{tag}: frame number as the history dictates", fr.number == exp["number"])
            else:
                seen = r.log[-1]
                eng.claim(f"{tag}: INDEFINITE: the pending seek is handed to the renderable (last one wins), exactly once",
                          sym_and(seen[0] == exp["pending"][0], seen[1] is exp["pending"][1], len(r.log) == n_log + 1))
            eng.claim(f"{tag}: frame duration / size / output reflect the current settings",
                      sym_and(fr.duration == edur, fr.render_size[0] == esize[0], fr.render_size[1] == esize[1], core.SymBool(ic.same_str(fr.render_output, eout))))

        def do_op(i, op):
            tag = f"step {i} {ic.OPS[op]}"
            eng.step(ic.OPS[op])
            name = ic.OPS[op]
            if name == "next":
                do_next(tag)
            elif name.startswith("seek"):
                whence = {"seek_start": Seek.START, "seek_current": Seek.CURRENT, "seek_end": Seek.END}[name]
                off = eng.int(f"offset{i}")
                exp = m.op_seek(off, whence)
                self.expect(eng, tag, lambda: it.seek(off, whence), exp)
            elif name == "set_frame_duration":
                if bool(eng.bool(f"dynamic{i}")):
                    d, valid = FD.DYNAMIC, True
                else:
                    d = eng.int(f"duration{i}")
                    valid = bool(d > 0)
                exp = "FinalizedIteratorError" if m.closed else (None if valid else "ValueError")
                self.expect(eng, tag, lambda: it.set_frame_duration(d), exp)
                if exp is None:
                    m.duration = d
            elif name == "set_padding":
                kind = eng.choice(f"pad_kind{i}", 3)
                if kind == 0:
                    p = P.ExactPadding(eng.int(f"pl{i}", 0), eng.int(f"pt{i}", 0), eng.int(f"pr{i}", 0), eng.int(f"pb{i}", 0))
                    res = p
                else:
                    mw, mh = eng.int(f"pw{i}"), eng.int(f"ph{i}")
                    if kind == 1:
                        eng.assume(sym_and(mw > 0, mh > 0))
                    else:
                        eng.assume(sym_or(mw <= 0, mh <= 0))
                    p = P.AlignedPadding(mw, mh)
                    res = P.AlignedPadding(core.sym_if(mw > 0, mw, core.sym_if(tw + mw > 1, tw + mw, 1)), core.sym_if(mh > 0, mh, core.sym_if(th + mh > 1, th + mh, 1)))
                exp = "FinalizedIteratorError" if m.closed else None
                self.expect(eng, tag + ("" if kind < 2 else " (terminal-relative)"), lambda: it.set_padding(p), exp)
                if exp is None:
                    m.padding = res
            elif name == "set_render_args":
                kind = eng.choice(f"args_kind{i}", 3)
                if kind == 0:
                    v = eng.int(f"foo{i}")
                    a, newfoo, ok = K["RenderArgs"](R, K["RArgs"](v)), v, True
                elif kind == 1:
                    a, newfoo, ok = K["RenderArgs"](K["Renderable"]), 0, True  # base args are compatible: defaults
                else:
                    a, newfoo, ok = K["RenderArgs"](K["Other"], K["OtherArgs"](1)), None, False
                exp = "FinalizedIteratorError" if m.closed else (None if ok else "IncompatibleRenderArgsError")
                self.expect(eng, tag, lambda: it.set_render_args(a), exp)
                if exp is None:
                    m.foo = newfoo
            elif name == "set_render_size":
                s = G._Size(eng.int(f"w{i}", 1), eng.int(f"h{i}", 1))
                exp = "FinalizedIteratorError" if m.closed else None
                self.expect(eng, tag, lambda: it.set_render_size(s), exp)
                if exp is None:
                    m.size = s
            elif name == "close":
                it.close()
                it.close()  # idempotent
                m.closed = True
            self.check_state(eng, it, m, r, tag)

        step = 0
        if shape["prefix"]:
            a = eng.int("prefix_seek")
            exp = m.op_seek(a, Seek.START)
            self.expect(eng, "prefix seek", lambda: it.seek(a), exp)
            do_next("prefix next")
        for i in range(shape["steps"]):
            op = shape["first"] if i == 0 else eng.choice(f"op{i}", len(ic.OPS))
            do_op(i, op)
        # one final next() makes every pending setting observable
        do_next("final next")
        eng.reachable()
        if not indef:
            eng.claim("the renderable's own current frame is never moved", r.tell() == f0)
        eng.observe("renders", len(r.log))

    def expect(self, eng, tag, call, exp):
        try:
            call()
            got = None
        except Exception as e:  # noqa: BLE001
            got = type(e).__name__
            if exp is None or got != exp:
                if core._TRACE:
                    import traceback

                    traceback.print_exc()
        eng.claim(f"{tag}: accepted / rejected with the documented error ({exp})", got == exp)

    def check_state(self, eng, it, m, r, tag):
        eng.claim(f"{tag}: loop countdown equals the model's", it.loop == m.loop)
        if not m.closed and not m.indef:
            eng.claim(f"{tag}: next frame equals the model's", it._renderable_data.frame_offset == m.next)


CHECK = C08()
