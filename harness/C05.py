"""C05 - padding and alignment place the render exactly, inside exactly the padded size."""
from __future__ import annotations

import z3

from sx import core, tstr
from sx.core import sym_and, term
from sx.driver import Check
from sx.term import BLANK, OTHER, UNWRITTEN, UPPER

from . import common_render as cr


def box_render(kind, w, h):
    """An inner render of symbolic width w and concrete height h.
    'text': rows of upper-half blocks; 'graphics': ECH w + CUF w per row (as the kitty renderer fills)."""
    if kind == "text":
        line = tstr.T("▀") * w
    else:
        line = tstr.fmt_mod("\x1b[%dX", (w,)) + tstr.fmt_mod("\x1b[%dC", (w,))
    return tstr.sx_join("\n", [line] * h)


class C05(Check):
    id = "C05"
    level = "other"
    functions = [
        "term_image.padding:Padding.pad",
        "term_image.padding:Padding.get_padded_size",
        "term_image.padding:Padding.to_exact",
        "term_image.padding:AlignedPadding.__init__",
        "term_image.padding:AlignedPadding.get_padded_size",
        "term_image.padding:AlignedPadding.resolve",
        "term_image.padding:AlignedPadding._get_exact_dimensions_",
        "term_image.padding:ExactPadding.__init__",
        "term_image.padding:ExactPadding._get_exact_dimensions_",
        "term_image.image.common:BaseImage._format_render",
        "term_image.image.common:BaseImage._check_formatting",
        "term_image.renderable._renderable:Renderable.render",
    ]
    explanation = (
        "The real Padding classes, BaseImage._format_render/_check_formatting and Renderable.render run on proxy values. "
        "Laws part: render size, minimum size (absolute or terminal-relative), exact margins and terminal size are unbounded z3 "
        "integers, alignment is a forked selector; get_padded_size / to_exact / resolve / the alignment split are unsat queries. "
        "Pad part: the padded output term (symbolic widths and horizontal margins, enumerated heights and vertical margins) is "
        "interpreted by the terminal model with a symbolic probe cell: the inner render appears exactly at the alignment offset, "
        "every other cell of the padded box shows the fill (or is untouched when the fill is empty), nothing outside is written."
    )
    assumptions = [
        "terminal model sx/term.py; padded output is written starting at column 0 (as draw() does)",
        "the fill character occupies one column",
        "vertical sizes (render height, vertical margins) enumerated; horizontal quantities and terminal size unbounded",
        "inner renders: rows of 1-column glyphs (text styles) or ECH+CUF rows (graphics styles' fills); C01 justifies this box contract for the real renderers",
    ]
    bounds = {
        "quick": {"heights": [1, 2], "vpad": [0, 1, 2]},
        "thorough": {"heights": [1, 2, 3], "vpad": [0, 1, 2, 3]},
    }
    max_paths = 5000

    def shapes(self, tier):
        b = self.bounds[tier]
        out = [{"part": "laws", "cls": "aligned"}, {"part": "laws", "cls": "exact"}, {"part": "laws", "cls": "old"}, {"part": "laws", "cls": "render"}]
        for h in b["heights"]:
            for fill in (" ", "#", ""):
                for kind in ("text", "graphics"):
                    for dv in b["vpad"]:
                        out.append({"part": "pad", "api": "aligned", "h": h, "dv": dv, "fill": fill, "kind": kind})
                    for tb in ((0, 0), (1, 0), (0, 2), (2, 1)):
                        out.append({"part": "pad", "api": "exact", "h": h, "tb": list(tb), "fill": fill, "kind": kind})
            for dv in b["vpad"]:
                out.append({"part": "pad", "api": "old", "h": h, "dv": dv, "fill": " ", "kind": "text"})
        # draw() parameters of images: a padding height below the render height has no effect, for stills and for every
        # frame of an animation (delegated to the draw() harness of C06: terminal model with the probe cell)
        for n in (1, 2):
            out.append({"part": "draw_small_pad", "api": "old", "h": 2, "dv": -1, "frames": n, "loops": 1})
        return out

    def setup(self, shape, concrete):
        if shape["part"] == "draw_small_pad":
            from .C06 import CHECK as C06C

            return C06C.setup(shape, concrete)
        from PIL import Image

        from term_image import geometry, padding
        from term_image.image import BlockImage, common
        from term_image.renderable import Frame, Renderable

        self.P, self.G, self.common = padding, geometry, common
        self.img = BlockImage(Image.new("RGB", (1, 1)), width=1, height=1)
        self.Frame, self.Renderable = Frame, Renderable

    # ------------------------------------------------------------------- laws
    def laws(self, eng, shape):
        P, G = self.P, self.G
        w, h = eng.int("render_w", 1), eng.int("render_h", 1)
        size = G._Size(w, h)
        tw, th = eng.int("term_cols", 1), eng.int("term_lines", 1)
        tsize = cr.TS((tw, th))
        if shape["cls"] == "exact":
            l, t, r, b = (eng.int(n) for n in ("left", "top", "right", "bottom"))
            neg = core.sym_or(l < 0, t < 0, r < 0, b < 0)
            try:
                p = P.ExactPadding(l, t, r, b)
                raised = False
            except ValueError:
                raised = True
            eng.claim("ExactPadding: negative margins rejected, others accepted", neg if raised else core.sym_not(neg))
            if raised:
                return
            eng.reachable()
            ps = p.get_padded_size(size)
            eng.claim("ExactPadding: padded size = render + margins", sym_and(ps[0] == l + w + r, ps[1] == t + h + b))
            eng.claim("ExactPadding: dimensions stored as given", p.dimensions == (l, t, r, b))
            eng.claim("ExactPadding: to_exact is the identity", p.to_exact(size) is p)
            eng.observe("padded", (ps[0], ps[1]))
            return
        if shape["cls"] == "old":
            img = self.img
            self.common.get_terminal_size = lambda: tsize
            pw, ph = eng.int("pad_width"), eng.int("pad_height")
            ha = [None, "<", "|", ">", "left", "center", "right"][eng.choice("h_align", 7)]
            va = [None, "^", "-", "_", "top", "middle", "bottom"][eng.choice("v_align", 7)]
            res = img._check_formatting(ha, pw, va, ph)
            eng.reachable()
            eng.claim("old API: relative pad dimensions resolve to max(terminal + d, 1), absolute ones are kept",
                      sym_and(res[1] == core.sym_if(pw > 0, pw, core.sym_if(tw + pw > 1, tw + pw, 1)), res[3] == core.sym_if(ph > 0, ph, core.sym_if(th + ph > 1, th + ph, 1))))
            eng.claim("old API: alignment names map to their symbols", res[0] == {None: None, "left": "<", "center": "|", "right": ">"}.get(ha, ha) and res[2] == {None: None, "top": "^", "middle": "-", "bottom": "_"}.get(va, va))
            eng.observe("fmt", (res[1], res[3]))
            return
        mw, mh = eng.int("min_w"), eng.int("min_h")
        ha, va = eng.choice("h_align", 3), eng.choice("v_align", 3)
        p = P.AlignedPadding(mw, mh, P.HAlign(ha), P.VAlign(va))
        rel = core.sym_or(mw <= 0, mh <= 0)
        eng.claim("AlignedPadding.relative iff a dimension is non-positive", core.SymBool(core._boolterm(p.relative) == core._boolterm(rel)))
        if shape["cls"] == "render":
            # Renderable.render pads only when the padded size differs
            Frame, Renderable = self.Frame, self.Renderable
            inner = "X"

            class Box(Renderable):
                def __init__(s):
                    super().__init__(1, 1)

                def _get_render_size_(s):
                    return size

                def _render_(s, render_data, render_args):
                    return Frame(0, 1, render_data[Renderable].size, inner)

            import term_image.renderable._renderable as RM

            RM.get_terminal_size = lambda: tsize
            fr = Box().render(None, p)
            eng.reachable()
            aw = core.sym_if(mw > 0, mw, core.sym_if(tw + mw > 1, tw + mw, 1))
            ah = core.sym_if(mh > 0, mh, core.sym_if(th + mh > 1, th + mh, 1))
            eng.claim("Renderable.render: frame size = max(render, resolved minimum)",
                      sym_and(fr.render_size[0] == core.sym_if(aw > w, aw, w), fr.render_size[1] == core.sym_if(ah > h, ah, h)))
            unpadded = sym_and(aw <= w, ah <= h)
            same = fr.render_output is inner
            eng.claim("Renderable.render: output untouched iff no padding is needed", unpadded if same else core.sym_not(unpadded))
            return
        if bool(p.relative):
            for nm, f in (("get_padded_size", lambda: p.get_padded_size(size)), ("to_exact", lambda: p.to_exact(size)), ("pad", lambda: p.pad("x", size))):
                try:
                    f()
                    ok = False
                except P.RelativePaddingDimensionError:
                    ok = True
                eng.claim(f"relative AlignedPadding: {nm} raises RelativePaddingDimensionError", ok)
            q = p.resolve(tsize)
            eng.claim("resolve: relative dimensions become max(terminal + d, 1), absolute ones are kept; alignment and fill kept",
                      sym_and(q.width == core.sym_if(mw > 0, mw, core.sym_if(tw + mw > 1, tw + mw, 1)), q.height == core.sym_if(mh > 0, mh, core.sym_if(th + mh > 1, th + mh, 1)),
                              q.h_align == p.h_align, q.v_align == p.v_align, q.fill == p.fill))
            eng.claim("resolve: result is absolute", core.sym_not(q.relative))
            eng.observe("resolved", (q.width, q.height))
            return
        eng.reachable()
        eng.claim("resolve: an absolute padding resolves to itself", p.resolve(tsize) is p)
        l, t, r, b = p._get_exact_dimensions_(size)
        ps = p.get_padded_size(size)
        eng.claim("get_padded_size = max(render, minimum) on both axes", sym_and(ps[0] == core.sym_if(mw > w, mw, w), ps[1] == core.sym_if(mh > h, mh, h)))
        eng.claim("get_padded_size agrees with the exact margins", sym_and(ps[0] == l + w + r, ps[1] == t + h + b))
        eng.claim("margins are non-negative", sym_and(l >= 0, t >= 0, r >= 0, b >= 0))
        padw = core.sym_if(mw > w, mw - w, 0)
        padh = core.sym_if(mh > h, mh - h, 0)
        exp_l = [0, padw // 2, padw][ha]
        exp_t = [0, padh // 2, padh][va]
        eng.claim("alignment split: left/top margin = 0 | floor(pad/2) | pad for LEFT/TOP | CENTER/MIDDLE | RIGHT/BOTTOM", sym_and(l == exp_l, t == exp_t))
        eng.claim("padding no larger than the render has no effect on that axis", sym_and(core.sym_implies(mw <= w, sym_and(l == 0, r == 0)), core.sym_implies(mh <= h, sym_and(t == 0, b == 0))))
        ex = p.to_exact(size)
        eng.claim("to_exact carries exactly those margins and the fill", sym_and(ex.left == l, ex.top == t, ex.right == r, ex.bottom == b, ex.fill == p.fill))
        eng.observe("margins", (l, t, r, b))

    # -------------------------------------------------------------------- pad
    def body(self, eng, shape):
        if shape["part"] == "draw_small_pad":
            from .C06 import CHECK as C06C

            return C06C.body(eng, shape)
        if shape["part"] == "laws":
            return self.laws(eng, shape)
        P, G = self.P, self.G
        h = shape["h"]
        w = eng.int("render_w", 1, 1 << 16)
        size = G._Size(w, h)
        fill = shape["fill"]
        inner = box_render(shape["kind"], w, h)
        if eng.concrete is not None:
            inner = tstr.maybe_concrete(inner)
        if shape["api"] == "exact":
            l, r = eng.int("left", 0, 1 << 16), eng.int("right", 0, 1 << 16)
            t_, b_ = shape["tb"]
            p = P.ExactPadding(l, t_, r, b_, fill)
            out = p.pad(inner, size)
        elif shape["api"] == "aligned":
            mw = eng.int("min_w", 1, 1 << 16)
            ha, va = eng.choice("h_align", 3), eng.choice("v_align", 3)
            p = P.AlignedPadding(mw, h + shape["dv"], P.HAlign(ha), P.VAlign(va), fill)
            out = p.pad(inner, size)
            l, t_, r, b_ = p._get_exact_dimensions_(size)
        else:
            img = self.img
            img._size = (w, h)
            mw = eng.int("min_w", 1, 1 << 16)
            ha = [None, "<", "|", ">"][eng.choice("h_align", 4)]
            va = [None, "^", "-", "_"][eng.choice("v_align", 4)]
            mh = h + shape["dv"]
            out = img._format_render(inner, ha, mw, va, mh)
            padw = core.sym_if(mw > w, mw - w, 0)
            l = {"<": 0, ">": padw}.get(ha, padw // 2)
            r = padw - l
            padh = shape["dv"]
            t_ = {"^": 0, "_": padh}.get(va, padh // 2)
            b_ = padh - t_
        eng.reachable()
        Wp, Hp = l + w + r, t_ + h + b_
        t, g = cr.screen(eng, Wp, Hp, at_origin=True)
        t.feed(out).finish()
        cr.claim_events(eng, t)
        px, py, y0 = g["px"], g["py"], g["y0"]
        in_box = z3.And(px >= 0, px < term(Wp), py >= y0, py < y0 + Hp)
        in_inner = z3.And(px >= term(l), px < term(l) + term(w), py >= y0 + t_, py < y0 + t_ + h)
        inner_glyph = UPPER if shape["kind"] == "text" else BLANK
        eng.claim("never scrolls", z3.Not(t.scrolled))
        eng.claim("nothing outside the padded box is written", z3.Implies(t.p_written, in_box))
        eng.claim("the render appears unchanged exactly at the alignment offset", z3.Implies(in_inner, z3.And(t.p_written, t.p_glyph == inner_glyph)))
        if fill:
            fg = BLANK if fill == " " else OTHER
            eng.claim("every other cell of the padded box shows the fill", z3.Implies(z3.And(in_box, z3.Not(in_inner)), z3.And(t.p_written, t.p_glyph == fg)))
        else:
            eng.claim("with an empty fill the padding cells are left untouched", z3.Implies(z3.And(in_box, z3.Not(in_inner)), z3.Not(t.p_written)))
        eng.claim("occupies exactly the padded number of lines", z3.BoolVal(t.newlines == Hp - 1))
        eng.claim("cursor ends on the last line at the right edge of the box",
                  z3.And(t.row == y0 + Hp - 1, t.cursor_col() == z3.If(term(Wp) > g["W"] - 1, g["W"] - 1, term(Wp))))
        eng.observe("newlines", t.newlines)


CHECK = C05()
