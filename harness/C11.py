"""C11 - image iteration matches frame-by-frame rendering and leaks nothing."""
from __future__ import annotations

import io
import sys

import z3

from sx import core
from sx.core import SymBool, sym_and, term
from sx.driver import Check

MODES = ["1", "L", "LA", "P", "PA", "RGB", "RGBA", "CMYK", "HSV"]
ALPHAS = [None, 0.3, "#", "#102030"]


class Fault(Exception):
    pass


class World:
    """resource model: every image object the library obtains, temp files, and a fault index"""

    def __init__(self, eng):
        self.eng = eng
        self.images = []
        self.ops = 0
        self.fault_at = None
        self.fired = False
        self.files = {}  # path -> bytes (the library's temp dir)
        self.removed = []
        self.suspended = False

    def step(self, what):
        if self.suspended:
            return
        k = self.ops
        self.ops += 1
        if self.fault_at is not None and not self.fired and bool(self.fault_at == k):
            self.fired = True
            raise Fault(what)


class FakeImg:
    """what the library touches of a PIL image; pixel values encode the frame number"""

    def __init__(self, world, mode, size, n_frames=1, origin="derived", frame=0, fmt="PNG", filename=None):
        self.w, self.mode, self.size, self.n_frames_, self.origin = world, mode, size, n_frames, origin
        self.frame = frame
        self.closed = False
        self.format = fmt
        self.info = {"duration": 50}
        self.is_animated = n_frames > 1
        if filename:
            self.filename = filename
        world.images.append(self)
        self.used_after_close = False

    # -- frames
    @property
    def n_frames(self):
        return self.n_frames_

    def seek(self, k):
        self._use()
        if k >= self.n_frames_:
            raise EOFError
        self.frame = k

    def tell(self):
        return self.frame

    def _use(self):
        if self.closed:
            self.used_after_close = True

    def _derive(self, mode=None, size=None):
        return FakeImg(self.w, mode or self.mode, size or self.size, 1, "derived", self.frame)

    # -- conversions (each one is a fault point)
    def convert(self, mode):
        self._use()
        self.w.step("convert")
        return self._derive(mode=mode)

    def resize(self, size, *a, **k):
        self._use()
        self.w.step("resize")
        return self._derive(size=tuple(size))

    def alpha_composite(self, other):
        self._use()
        other._use()
        self.w.step("alpha_composite")

    def putalpha(self, a):
        self._use()
        self.w.step("putalpha")

    def getchannel(self, c):
        self._use()
        return self._derive(mode="L")

    def getdata(self, band=None):
        self._use()
        n = self.size[0] * self.size[1]
        v = 10 + self.frame
        if band is not None or len(self.mode) == 1:
            return [255] * n
        return [(v, v, v)] * n

    def tobytes(self):
        self._use()
        self.w.step("tobytes")
        return bytes([10 + self.frame]) * (self.size[0] * self.size[1] * len(self.mode))

    def save(self, fp, fmt=None, **kw):
        self._use()
        self.w.step("save")
        fp.write(b"IMG" + bytes([10 + self.frame]))

    def close(self):
        self.closed = True

    def __enter__(self):
        return self

    def __exit__(self, *a):
        self.close()
        return False


class C11(Check):
    id = "C11"
    level = "other"
    functions = [
        "term_image.image.common:ImageIterator.__init__",
        "term_image.image.common:ImageIterator.__next__",
        "term_image.image.common:ImageIterator.seek",
        "term_image.image.common:ImageIterator.close",
        "term_image.image.common:ImageIterator._animate",
        "term_image.image.common:BaseImage._renderer",
        "term_image.image.common:BaseImage._get_image",
        "term_image.image.common:BaseImage._close_image",
        "term_image.image.common:BaseImage._get_render_data",
        "term_image.image.common:BaseImage._display_animated",
        "term_image.image.common:BaseImage.close",
        "term_image.image.common:BaseImage.from_file",
        "term_image.image.common:BaseImage.from_url",
        "term_image.image.common:BaseImage.__format__",
        "term_image.image.block:BlockImage._render_image",
        "term_image.image.kitty:KittyImage._render_image",
        "term_image.image.iterm2:ITerm2Image._render_image",
    ]
    explanation = (
        "The real rendering / iteration / construction code of the three styles runs against a resource model: Image.open hands out "
        "instrumented image doubles (mode, size, frame count), every conversion / resize / composite / encode step is a fault point "
        "selected by a z3 integer (the engine forks at every step), requests.get / mkstemp / os.write / os.remove are modelled.  Source "
        "kind, mode (nine), alpha setting (four kinds), size equal / unequal to the render size, render method, the operation (str, "
        "format, draw, partial / full iteration with seeks, early close, abandonment) and the fault position are solver-forked selectors "
        "or symbolic.  Claims at the end of every path: every image the library opened is closed and none was used after closing; a "
        "caller-supplied image is never closed; iterated frames equal the per-frame formatting of the same frame; tell() tracks the "
        "last yielded frame, returns to 0 on exhaustion and is untouched by an animated draw(); the image's size setting is unchanged; "
        "the URL temp file exists exactly while the image is open and is not left behind by a failed construction."
    )
    assumptions = [
        "resource model instead of real file descriptors / HTTP / PIL file handling: a leak inside PIL itself would not be seen (stated in DESIGN.md section 4)",
        "images are 1x1 cells (pixel loops are covered by C02); frame counts 2-3",
        "PIL operations return new in-memory images; only Image.open results are file-backed",
    ]
    bounds = {"quick": {"frames": [2], "repeat_x_cached": [[1, False], [2, True]], "modes": 4}, "thorough": {"frames": [2, 3], "repeat_x_cached": "all four", "modes": 9}}
    max_paths = 300000

    def budget(self, tier):
        return (280, 10000) if tier == "quick" else (3000, 60000)

    def shapes(self, tier):
        out = []
        for style in ("block", "kitty", "iterm2"):
            for source in ("file", "pil"):
                for op in ("still", "iterate", "draw_animated"):
                    for n in self.bounds[tier]["frames"]:
                        if op == "still":
                            out.append({"style": style, "source": source, "op": op, "frames": n, "all_modes": tier != "quick"})
                            continue
                        for repeat, cached in (((1, False), (2, True)) if tier == "quick" else ((1, False), (1, True), (2, False), (2, True))):
                            if True:
                                out.append({"style": style, "source": source, "op": op, "frames": n, "all_modes": tier != "quick", "repeat": repeat, "cached": cached})
        for style in ("block", "kitty", "iterm2"):
            # dynamic size setting + an environment change before the second (cached) pass; no fault injection, one mode
            out.append({"style": style, "source": "file", "op": "iterate", "frames": 2, "all_modes": False, "repeat": 2, "cached": True, "dynamic": True})
        out.append({"style": "block", "source": "url", "op": "url", "frames": 1})
        return out

    def setup(self, shape, concrete):
        from term_image import utils
        from term_image.image import BlockImage, ITerm2Image, KittyImage, block, common, iterm2, kitty

        KittyImage._supported = True
        ITerm2Image._supported = True
        self.mods = dict(common=common, block=block, kitty=kitty, iterm2=iterm2, utils=utils)
        self.cls = {"block": BlockImage, "kitty": KittyImage, "iterm2": ITerm2Image}[shape["style"]]

    def install(self, eng, world, shape):
        common, block, kitty, iterm2 = (self.mods[k] for k in ("common", "block", "kitty", "iterm2"))
        modes = MODES if shape.get("all_modes") else (["RGB"] if shape.get("dynamic") else ["L", "P", "RGB", "RGBA"])
        mode = modes[eng.choice("source_mode", len(modes))]
        same_size = bool(eng.bool("source_size_equals_render_size"))
        n = shape["frames"]
        cs = (1, 2)
        rsize = (1, 2) if shape["style"] == "block" else (cs[0], cs[1])
        ssize = rsize if same_size else (3, 5)

        def open_(path, *a, **k):
            world.step("open")
            return FakeImg(world, mode, ssize, n, "opened", 0, "GIF", filename=path if isinstance(path, str) else None)

        class ImageNS:
            Image = FakeImg
            Resampling = type("R", (), {"BOX": 4})

            @staticmethod
            def open(path, *a, **k):
                return open_(path)

            @staticmethod
            def new(mode_, size, color=None):
                return FakeImg(world, mode_, tuple(size), 1, "derived")

        if "_valid_size" in self.cls.__dict__:
            del self.cls._valid_size  # (a stub of an earlier path)
        common.Image = ImageNS
        common.get_terminal_size = lambda: __import__("os").terminal_size((80, 24))
        common.get_cell_size = lambda: cs
        common.get_fg_bg_colors = lambda **kw: (None, "#000000") if kw.get("hex") else (None, (0, 0, 0))
        block.get_fg_bg_colors = lambda **kw: (None, (0, 0, 0))
        self.cls._is_on_kitty = staticmethod(lambda: False) if shape["style"] == "block" else None
        common.time = type("time", (), {"sleep": staticmethod(lambda s: None), "time": staticmethod(lambda: 0.0)})
        iterm2.PIL = type("PIL", (), {"Image": type("I", (), {"frombytes": staticmethod(lambda m, size, data: FakeImg(world, m, tuple(size), 1, "derived"))})})
        iterm2.open = lambda path, mode_="rb": io.BytesIO(b"FILEBYTES")
        iterm2.os = type("os", (), {"access": staticmethod(lambda p, m: True), "R_OK": 4})
        kitty._stdout_write = lambda s: sys.stdout.write(s)
        iterm2._stdout_write = lambda s: sys.stdout.write(s)
        return mode, ssize, open_

    def make_image(self, eng, world, shape, mode, ssize, open_):
        common = self.mods["common"]
        n = shape["frames"]
        cls = self.cls
        supplied = None
        if shape["source"] == "pil":
            supplied = FakeImg(world, mode, ssize, n, "caller", 0, "GIF", filename="/img.gif")
            image = cls.__new__(cls, supplied)
            # BaseImage.__init__ insists on a PIL image type: the double stands in for it
            common.Image.Image = FakeImg
            cls.__init__(image, supplied, width=1, height=1)
        else:
            real_abspath = common.os.path.abspath
            image = cls.from_file("/img.gif", width=1, height=1)
        return image, supplied

    def check_resources(self, eng, world, supplied, tag, allow_open=()):
        leaked = [im for im in world.images if im.origin == "opened" and not im.closed and im not in allow_open]
        eng.claim(f"{tag}: every image file the library opened is closed again", not leaked)
        eng.claim(f"{tag}: no image is used after it was closed", not any(im.used_after_close for im in world.images))
        if supplied is not None:
            eng.claim(f"{tag}: the caller's PIL image is never closed", not supplied.closed)

    def body(self, eng, shape):
        if shape["op"] == "url":
            return self.url(eng, shape)
        common = self.mods["common"]
        world = World(eng)
        mode, ssize, open_ = self.install(eng, world, shape)
        image, supplied = self.make_image(eng, world, shape, mode, ssize, open_)
        self.check_resources(eng, world, supplied, "construction")
        alpha_k = eng.choice("alpha_kind", len(ALPHAS))
        spec = ["#", "#.3", "##", "#102030"][alpha_k]
        methods = {"block": [""], "kitty": ["+L", "+W"], "iterm2": ["+L", "+W", "+A"]}[shape["style"]]
        spec_style = methods[eng.choice("method", len(methods))]
        full_spec = "1.1" + spec + spec_style
        op = shape["op"]
        if op == "still":
            # the default, dynamic size setting: evaluated for each render, the setting itself must survive (also a failing render)
            image._size = common.Size.FIT
            type(image)._valid_size = lambda self_, *a, **k: (1, 1)
        size0 = image.size
        n = shape["frames"]
        animated = n > 1 and image._is_animated
        start = eng.choice("current_frame", n) if op in ("still", "draw_animated") else 0
        if animated and start:
            image.seek(start)
        world.fault_at = eng.int("fault_at_step", -1) if not shape.get("dynamic") else None
        world.ops = 0
        old = sys.stdout
        sys.stdout = io.StringIO()
        try:
            if op == "still":
                try:
                    a = format(image, full_spec)
                    b = format(image, full_spec)
                    eng.claim("still: rendering the same frame twice gives the same output", a == b)
                    s = str(image)
                except (Fault, common.RenderError):
                    pass
                eng.claim("still: the current frame is unchanged by rendering", image.tell() == (start if animated else 0))
            elif op == "iterate":
                repeat, cached = shape["repeat"], shape["cached"]
                it = None
                # dynamic size setting (the default) + a terminal / cell-ratio change at the start of the second pass
                env = {"size": (1, 1)}
                dyn = bool(shape.get("dynamic"))
                if dyn:
                    image._size = common.Size.FIT
                    type(image)._valid_size = lambda self_, *a, **k: env["size"]
                    size0 = image.size
                try:
                    it = common.ImageIterator(image, repeat, full_spec, cached)
                    expected_pos = 0
                    steps = eng.choice("steps_before_abandoning", n * repeat + 2)
                    for i in range(steps):
                        if dyn and i == n:
                            env["size"] = (1, 2)
                        try:
                            fr = next(it)
                        except StopIteration:
                            eng.claim("iterate: stops exactly after repeat x frames (absent seeks)", i == n * repeat)
                            eng.claim("iterate: the image is back at frame 0 after exhaustion", image.tell() == 0)
                            break
                        eng.claim("iterate: more frames than repeat x n are never yielded", i < n * repeat)
                        k = i % n
                        eng.claim("iterate: the image's current frame tracks the yielded frame", image.tell() == k)
                        # formatting that frame directly must give the same output
                        pos = image.tell()
                        world.suspended = True  # the reference rendering is not part of the operation under test
                        try:
                            direct = format(image, full_spec.replace("+A", "+W"))
                        finally:
                            world.suspended = False
                        eng.claim("iterate: yielded frame equals formatting that frame directly", fr == direct)
                        if dyn:
                            eng.claim("iterate: a yielded frame has exactly rendered_height lines (rendered_height - 1 newlines) of the image as it is now",
                                      str(fr).count("\n") == env["size"][1] - 1)
                    if bool(eng.bool("close_explicitly")):
                        it.close()
                    else:
                        it = None
                        import gc

                        gc.collect()
                except (Fault, common.RenderError):
                    if it is not None:
                        # a failed iteration closes the iterator
                        try:
                            next(it)
                            closed = False
                        except StopIteration:
                            closed = True
                        except (Fault, common.RenderError):
                            closed = False
                        eng.claim("iterate: after a failure the iterator is closed", closed)
                    it = None
            else:
                try:
                    image.draw(None, 1, None, 1, ALPHAS[alpha_k], repeat=shape["repeat"], cached=shape["cached"], check_size=False)
                except (Fault, common.RenderError):
                    pass
                eng.claim("draw: an animated draw leaves the current frame untouched", image.tell() == (start if animated else 0))
        finally:
            sys.stdout = old
        eng.reachable()
        if op == "iterate":
            import gc

            gc.collect()
        self.check_resources(eng, world, supplied, op)
        eng.claim("the image's size setting is unchanged", image.size == size0)
        image.close()
        image.close()
        if supplied is not None:
            eng.claim("close(): the caller's PIL image is still open", not supplied.closed)
        eng.observe("steps", world.ops)

    # ------------------------------------------------------------------- URL
    def url(self, eng, shape):
        common = self.mods["common"]
        world = World(eng)
        mode, ssize, open_ = self.install(eng, world, shape)
        status = [200, 404][eng.choice("http_status", 2)]
        bad_body = bool(eng.bool("body_is_not_an_image"))
        files = world.files

        class Resp:
            status_code = status
            content = b"notimage" if bad_body else b"GIF89a"

        common.requests = type("requests", (), {"get": staticmethod(lambda url, **k: Resp())})

        def opener(fp, *a, **k):
            if bad_body:
                raise common.UnidentifiedImageError("cannot identify image file")
            world.step("open")
            return FakeImg(world, mode, ssize, 1, "opened")

        common.Image.open = staticmethod(opener)
        counter = [0]

        def mkstemp(suffix="", dir=None):
            counter[0] += 1
            path = f"{dir}/tmp{counter[0]}{suffix}"
            files[path] = b""
            return (1000 + counter[0], path)

        common.mkstemp = mkstemp
        real_os = common.os
        shim = type("os", (), {})()
        for nm in ("path", "PathLike", "R_OK", "access"):
            setattr(shim, nm, getattr(real_os, nm))
        shim.write = lambda fd, data: len(data)
        shim.close = lambda fd: None

        def remove(path):
            if path not in files:
                raise FileNotFoundError(path)
            del files[path]
            world.removed.append(path)

        shim.remove = remove
        common.os = shim
        world.fault_at = eng.int("fault_at_step", -1)
        image = None
        # the constructor may reject the request after the image was downloaded and identified
        bad_kwargs = bool(eng.bool("constructor_arguments_invalid"))
        kwargs = dict(width=0) if bad_kwargs else dict(width=1, height=1)
        try:
            image = self.cls.from_url("http://host/pic.gif", **kwargs)
            outcome = "ok"
        except common.URLNotFoundError:
            outcome = "URLNotFoundError"
        except common.UnidentifiedImageError:
            outcome = "UnidentifiedImageError"
        except Fault:
            outcome = "fault"
        except ValueError:
            outcome = "ValueError"
        eng.reachable()
        exp = "URLNotFoundError" if status == 404 else ("UnidentifiedImageError" if bad_body else ("ValueError" if bad_kwargs and outcome != "fault" else None))
        if exp:
            eng.claim("from_url: 404 / non-image bodies / invalid constructor arguments raise the documented error", outcome == exp)
        if outcome != "ok":
            eng.claim("from_url: no temporary file is left behind when construction fails", not files)
            return
        eng.claim("from_url: the temporary copy exists while the image is open", len(files) == 1 and image._source in files)
        try:
            format(image, "1.1")
        except (Fault, common.RenderError):
            pass
        eng.claim("from_url: rendering keeps the temporary copy", len(files) == 1)
        image.close()
        eng.claim("from_url: close() removes the temporary copy", not files)
        image.close()
        eng.claim("close() is idempotent", len(world.removed) == 1)
        common.os = real_os


CHECK = C11()
