"""C02 part (b): the pixel pipeline BaseImage._get_render_data on a recording image double.

PIL operations are uninterpreted: every operation builds an expression tree; the tree of the returned image, the
pixel list and the alpha list must be the documented pipeline for the case at hand (no resize when the pixel
size already equals the render resolution, composite over the requested colour / terminal background / black,
alpha thresholded at round(255 t), alpha ignored when transparency is disabled)."""
from __future__ import annotations

import z3

from sx import core
from sx.core import SymBool, SymInt, sym_and, term

MODES = ["1", "L", "LA", "P", "PA", "RGB", "RGBA", "CMYK", "HSV"]
NO_ALPHA_MODES = {"1", "L", "RGB", "HSV", "CMYK"}


class Img:
    """expression-recording stand-in for PIL.Image.Image"""

    def __init__(self, expr, mode, size, alpha_samples=None):
        self.expr, self.mode, self.size = expr, mode, tuple(size)
        self.closed = False
        self.alpha_samples = alpha_samples

    def seek(self, k):
        pass

    def convert(self, mode):
        return Img(("convert", self.expr, mode), mode, self.size, self.alpha_samples if mode in ("RGBA", "LA", "PA") else None)

    def resize(self, size, resample=None):
        return Img(("resize", self.expr, tuple(size), resample), self.mode, size, self.alpha_samples_resized(size))

    def alpha_samples_resized(self, size):
        return self.alpha_samples  # samples are taken at render resolution by the harness

    def alpha_composite(self, other):
        self.expr = ("composite", self.expr, other.expr)

    def putalpha(self, ch):
        self.expr = ("putalpha", self.expr, ch.expr)
        self.alpha_samples = ch.alpha_samples

    def getchannel(self, c):
        return Img(("channel", self.expr, c), "L", self.size, self.alpha_samples)

    def getdata(self, band=None):
        n = self.size[0] * self.size[1]
        if band is not None:
            return list(self.alpha_samples) if self.alpha_samples is not None else [255] * n
        return [("px", self.expr, i) for i in range(n)]

    def close(self):
        self.closed = True


def pipeline_shapes(tier):
    out = []
    for mode in MODES:
        for alpha in ("none", "threshold", "terminal_bg", "hex"):
            out.append({"part": "pipeline", "src_mode": mode, "alpha": alpha})
    return out


def pipeline_body(check, eng, shape):
    common = check.mods["common"]
    img_obj = check.img
    mode, alpha_kind = shape["src_mode"], shape["alpha"]
    same = bool(eng.bool("pixel_size_equals_render_resolution"))
    rsize = (2, 2)
    ssize = rsize if same else (5, 3)
    n = rsize[0] * rsize[1]
    has_alpha = mode not in NO_ALPHA_MODES
    samples = [eng.int(f"alpha_sample{i}", 0, 255) for i in range(n)]
    src = Img(("source",), mode, ssize, samples if has_alpha else None)
    bg_known = bool(eng.bool("terminal_bg_known"))
    bg_hex = "#0a141e" if bg_known else None
    common.get_fg_bg_colors = lambda **kw: (None, bg_hex) if kw.get("hex") else (None, (10, 20, 30) if bg_known else None)

    class ImageNS:
        Image = Img
        Resampling = type("R", (), {"BOX": "BOX"})

        @staticmethod
        def new(m, size, color=None):
            return Img(("new", m, tuple(size), color), m, size, [255] * (size[0] * size[1]))

    common.Image = ImageNS
    img_obj._is_animated = False
    img_obj._source = src
    if alpha_kind == "none":
        alpha = None
    elif alpha_kind == "threshold":
        alpha = eng.real("threshold", 0, z3.RealVal(255) / 256)
    elif alpha_kind == "terminal_bg":
        alpha = "#"
    else:
        alpha = "#112233"
    round_alpha = bool(eng.bool("round_alpha")) if alpha_kind == "threshold" else False
    res, rgb, a = img_obj._get_render_data(src, alpha, size=rsize, pixel_data=True, round_alpha=round_alpha)
    eng.reachable()

    def prep(target):
        e, m = ("source",), mode
        if m != target:
            e, m = ("convert", e, target), target
        if not same:
            e = ("resize", e, rsize, "BOX")
        return e

    if alpha is None or not has_alpha:
        e = prep("RGB")
        eng.claim("no transparency: converted to RGB (only if needed), BOX-resized only if the pixel size differs, nothing else", res.expr == e and res.mode == "RGB")
        eng.claim("no transparency: pixels are the image's pixels at render resolution", rgb == [("px", e, i) for i in range(n)])
        eng.claim("no transparency: alpha is ignored (all opaque)", a == [255] * n)
        return
    e1 = prep("RGBA")
    if isinstance(alpha, str):
        colour = alpha if alpha != "#" else (bg_hex or "#000000")
        e = ("convert", ("composite", ("new", "RGBA", rsize, colour), e1), "RGB")
        eng.claim("background colour: composited over the requested colour (terminal background, black when unknown), then RGB", res.expr == e and res.mode == "RGB")
        eng.claim("background colour: pixels come from the composited image", rgb == [("px", e, i) for i in range(n)])
        eng.claim("background colour: every pixel is opaque", a == [255] * n)
        return
    # threshold
    if round_alpha:
        e = ("putalpha", ("composite", ("new", "RGBA", rsize, bg_hex or "#000000"), e1), ("channel", e1, "A"))
        eng.claim("threshold: colours composited over the terminal background (black when unknown) with the alpha channel kept", res.expr == e)
        eng.claim("threshold: pixels come from that image", rgb == [("px", ("convert", e, "RGB"), i) for i in range(n)])
        thr = core.rterm(alpha) * 255
        conds = []
        for got, s_ in zip(a, samples):
            # 0 iff sample < round(255 t): round() may land on either neighbour at an exact tie
            eps = z3.RealVal(1) / (2**30)  # slack for the double rounding of t * 255
            lo = z3.ToReal(term(s_)) < thr - z3.RealVal(1) / 2 - eps
            hi = z3.ToReal(term(s_)) > thr + z3.RealVal(1) / 2 + eps
            conds.append(z3.And(z3.Implies(lo, term(got) == 0), z3.Implies(hi, term(got) == 255), z3.Or(term(got) == 0, term(got) == 255)))
        eng.claim("threshold: alpha below round(255 t) becomes 0 (terminal background shows), otherwise 255 (opaque)", z3.And(*conds))
    else:
        eng.claim("threshold (graphics styles): image only converted / resized, alpha values used as they are", res.expr == e1 and [term(x) for x in a] == [term(s_) for s_ in samples])
    eng.observe("n", len(a))
