"""C02 part (b): the pixel pipeline BaseImage._get_render_data (to be filled in)."""


def pipeline_shapes(tier):
    return []


def pipeline_body(check, eng, shape):
    raise NotImplementedError
