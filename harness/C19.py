"""C19 - format specifiers are accepted and interpreted exactly as documented."""
from __future__ import annotations

import re

import z3

from sx import core, rx
from sx.core import SymBool, sym_and, term
from sx.driver import Check
from sx.rx import CStr

# ------------------------------------------------------------------ documented grammar
DOC_BASE = r"[<|>]?(\d+)?(\.([-^_]\d*|\d+))?(#(\.\d+|[0-9a-fA-F]{6}|#)?)?(\+.+)?"
DOC_STYLE = {"block": r"", "kitty": r"[LW]?(z-?\d+)?(m[01])?(c[0-9])?", "iterm2": r"[LWA]?(m[01])?(c[0-9])?"}
ALPHA_DEFAULT = 40 / 255


class TS(tuple):
    columns = property(lambda s: s[0])
    lines = property(lambda s: s[1])


def is_in(c, chars):
    """c (1-char str or CStr) is one of chars"""
    return any(c == ch for ch in chars)


def is_digit(c):
    if isinstance(c, CStr):
        return c.isdigit()
    return c in "0123456789"


def is_hex(c):
    if isinstance(c, CStr):
        v = rx._t(c.cs[0])
        return bool(SymBool(z3.Or(z3.And(v >= 48, v <= 57), z3.And(v >= 65, v <= 70), z3.And(v >= 97, v <= 102))))
    return c in "0123456789abcdefABCDEF"


def to_int(s):
    return s.to_int() if isinstance(s, CStr) else int(s)


def to_float(s):
    return s.to_float() if isinstance(s, CStr) else float(s)


def ref_parse(s, style):
    """Reference parser written from docs/source/guide/formatting.rst and the class docstrings.
    Returns None (not a sentence) or dict(h_align, width, v_align, height, alpha, style)."""
    n, i = len(s), 0
    out = dict(h_align=None, width=None, v_align=None, height=None, alpha=ALPHA_DEFAULT, style={})

    def digits(i):
        j = i
        while j < n and is_digit(s[j]):
            j += 1
        return j

    if i < n and is_in(s[i], "<|>"):
        out["h_align"] = s[i]
        i += 1
    j = digits(i)
    if j > i:
        out["width"] = to_int(s[i:j])
        i = j
    if i < n and s[i] == ".":
        # vertical part: at least one of v_align / height must follow
        k = i + 1
        got = False
        if k < n and is_in(s[k], "^-_"):
            out["v_align"] = s[k]
            k += 1
            got = True
        j = digits(k)
        if j > k:
            out["height"] = to_int(s[k:j])
            k = j
            got = True
        if not got:
            return None
        i = k
    if i < n and s[i] == "#":
        i += 1
        out["alpha"] = None
        if i < n and s[i] == "#":
            out["alpha"] = "#"
            i += 1
        elif i + 1 < n and s[i] == "." and is_digit(s[i + 1]):
            j = digits(i + 1)
            out["alpha"] = to_float(s[i:j])
            i = j
        elif i + 6 <= n and all(is_hex(s[i + t]) for t in range(6)):
            out["alpha"] = "#" + s[i : i + 6]
            i += 6
    if i < n and s[i] == "+":
        st = s[i + 1 :]
        if len(st) == 0:
            return None
        out["style_text"] = st
        i = n
    if i != n:
        return None
    return out


def ref_style(st, style):
    """-> dict of style arguments, or 'StyleError' / 'ValueError'"""
    if style == "block":
        return "StyleError"
    n, i = len(st), 0
    args = {}
    methods = "LW" if style == "kitty" else "LWA"
    if i < n and is_in(st[i], methods):
        for ch, name in (("L", "lines"), ("W", "whole"), ("A", "anim")):
            if ch in methods and st[i] == ch:
                args["method"] = name
        i += 1
    if style == "kitty" and i < n and st[i] == "z":
        k = i + 1
        if k < n and st[k] == "-":
            k += 1
        j = k
        while j < n and is_digit(st[j]):
            j += 1
        if j > k:
            z = to_int(st[i + 1 : j])
            i = j
            if not bool(sym_and(z > -(2**31), z < 2**31)):
                return "ValueError"
            if bool(z != 0):
                args["z_index"] = z
    if i + 1 < n and st[i] == "m" and is_in(st[i + 1], "01"):
        if st[i + 1] == "1":
            args["mix"] = True
        i += 2
    if i + 1 < n and st[i] == "c" and is_digit(st[i + 1]):
        c = to_int(st[i + 1 : i + 2])
        if bool(c != 4):
            args["compress"] = c
        i += 2
    if i != n:
        return "StyleError"
    return args


def same_value(a, b):
    """z3 Bool: parsed value a equals reference value b"""
    if a is None or b is None:
        return z3.BoolVal(a is None and b is None)
    if isinstance(a, (CStr,)) or isinstance(b, (CStr,)):
        if isinstance(a, (int, float)) and not isinstance(a, (CStr,)) or isinstance(b, (int, float)) and not isinstance(b, (CStr,)):
            return z3.BoolVal(False)
        return CStr.of(a).eq_term(b)
    if type(a) is str or type(b) is str:
        return z3.BoolVal(type(a) is type(b) and a == b)
    if type(a) is bool or type(b) is bool:
        return z3.BoolVal(a is b) if type(a) is bool and type(b) is bool else z3.BoolVal(False)
    na, nb = core._num(a), core._num(b)
    if na is None or nb is None:
        return z3.BoolVal(False)
    return core._real(*na) == core._real(*nb)


class C19(Check):
    id = "C19"
    level = "other"
    functions = [
        "term_image.image.common:BaseImage._check_format_spec",
        "term_image.image.common:BaseImage._check_formatting",
        "term_image.image.common:BaseImage._get_style_format_spec",
        "term_image.image.common:BaseImage._check_style_format_spec",
        "term_image.image.common:BaseImage._check_style_args",
        "term_image.image.kitty:KittyImage._check_style_format_spec",
        "term_image.image.iterm2:ITerm2Image._check_style_format_spec",
    ]
    explanation = (
        "(A) The acceptance language of the two regular expressions of _check_format_spec, read from the current source, is "
        "compared with the documented grammar by z3's regular-expression theory: one query over a string of UNBOUNDED length.  "
        "(B) The real _check_format_spec / _check_formatting / _get_style_format_spec / _check_style_format_spec / "
        "_check_style_args of the three styles run on strings of concrete length <= N whose characters are z3 integers "
        "(every printable ASCII character); the module's compiled patterns are replaced by a backtracking matcher over the same "
        "sre_parse trees (validated against `re` on every run).  A reference parser written from the documentation runs on the "
        "same characters: accepted <=> sentence, error types, alignment, padding size, alpha and style arguments must agree "
        "(unsat queries per path), and the formatting values must equal those the draw() parameter path computes."
    )
    assumptions = [
        "documented grammar: docs/source/guide/formatting.rst (base) and the kitty / iterm2 class docstrings (style part)",
        "part B covers all strings over printable ASCII (codes 32..126) up to the stated length; longer strings only through part A (base grammar acceptance)",
        "the symbolic regex matcher sx/rx.py stands in for Python's re (differentially tested against re on all strings of length <= 3 over a representative alphabet at the start of every run)",
        "float('.ddd') is modelled as the exact rational",
    ]
    bounds = {"quick": {"max_len": 5}, "thorough": {"max_len": 7}}
    max_paths = 400000

    def budget(self, tier):
        return (280, 10000) if tier == "quick" else (3300, 60000)

    def shapes(self, tier):
        out = [{"part": "A", "what": "base"}, {"part": "A", "what": "alpha_bg"}]
        out += [{"part": "selftest", "group": g, "maxlen": 3 if tier == "quick" else 4} for g in ("base", "style")]
        N = self.bounds[tier]["max_len"]
        for style in ("block", "kitty", "iterm2"):
            for n in range(0, N + 1):
                if n <= 2:
                    out.append({"part": "B", "style": style, "len": n})
                else:
                    # split by the class of the first character to spread the work
                    for first in ("align", "digit", "dot", "hash", "plus", "other"):
                        out.append({"part": "B", "style": style, "len": n, "first": first})
        # (C) the same specifier used repeatedly while the terminal size changes, with a rejected one in between
        for style in ("block", "kitty", "iterm2"):
            for spec in ("", "<", "0", ".0", "#", "3.2", ".^", "|0._0#.5"):
                out.append({"part": "C", "style": style, "spec": spec})
        return out

    def setup(self, shape, concrete):
        from PIL import Image

        from term_image.image import BlockImage, ITerm2Image, KittyImage, common

        self.common = common
        KittyImage._supported = True
        ITerm2Image._supported = True
        self.classes = {"block": BlockImage, "kitty": KittyImage, "iterm2": ITerm2Image}
        self.real = dict(fs=common._FORMAT_SPEC, nv=common._NO_VERTICAL_SPEC, ab=common._ALPHA_BG_FORMAT,
                         kitty=KittyImage._FORMAT_SPEC, iterm2=ITerm2Image._FORMAT_SPEC)
        if shape["part"] == "B" and not concrete:
            common._FORMAT_SPEC = rx.SxPattern(self.real["fs"])
            common._NO_VERTICAL_SPEC = rx.SxPattern(self.real["nv"])
            common._ALPHA_BG_FORMAT = rx.SxPattern(self.real["ab"])
            KittyImage._FORMAT_SPEC = tuple(rx.SxPattern(p) for p in self.real["kitty"])
            ITerm2Image._FORMAT_SPEC = tuple(rx.SxPattern(p) for p in self.real["iterm2"])

    # ---------------------------------------------------------------- part A
    def part_a(self, eng, shape):
        s = eng.string("spec")
        common = self.common
        if shape["what"] == "base":
            doc = re.compile(DOC_BASE, re.ASCII)
            if eng.concrete is not None:
                try:
                    self.classes["block"]._check_format_spec(s)
                    acc = True
                except common.StyleError:
                    acc = True  # accepted by the base grammar; the style part is judged separately
                except ValueError:
                    acc = False
                eng.claim("base grammar: accepted <=> sentence of the documented grammar (any length)", acc == bool(doc.fullmatch(s)))
                return
            printable = z3.Star(z3.Range(" ", "~"))
            eng.assume(SymBool(z3.InRe(s, printable)))
            impl = z3.Intersect(rx.to_z3(self.real["fs"].pattern, self.real["fs"].flags), z3.Complement(rx.to_z3(self.real["nv"].pattern, self.real["nv"].flags)))
            eng.reachable()
            eng.claim("base grammar: accepted <=> sentence of the documented grammar (any length)", z3.InRe(s, impl) == z3.InRe(s, rx.to_z3(DOC_BASE)))
        else:
            doc = re.compile(r"#([0-9a-fA-F]{6})?", re.ASCII)
            if eng.concrete is not None:
                eng.claim("background-colour strings accepted by draw(): '#' or '#' + 6 hex digits", bool(self.real["ab"].fullmatch(s)) == bool(doc.fullmatch(s)))
                return
            eng.assume(SymBool(z3.InRe(s, z3.Star(z3.Range(" ", "~")))))
            eng.reachable()
            eng.claim("background-colour strings accepted by draw(): '#' or '#' + 6 hex digits", z3.InRe(s, rx.to_z3(self.real["ab"].pattern, self.real["ab"].flags)) == z3.InRe(s, rx.to_z3(doc.pattern)))

    # ---------------------------------------------------------------- part B
    def body(self, eng, shape):
        if shape["part"] == "A":
            return self.part_a(eng, shape)
        if shape["part"] == "selftest":
            # differential validation of the symbolic matcher against Python's re
            if shape["group"] == "base":
                n = rx.selftest([self.real["fs"], self.real["nv"], self.real["ab"]], "<1.^#a+L-", shape["maxlen"])
            else:
                n = rx.selftest([*self.real["kitty"], *self.real["iterm2"]], "LWAz-1m0c9x", shape["maxlen"])
            eng.reachable()
            eng.claim(f"symbolic regex matcher agrees with re (fullmatch/match/search, groups and spans) on all strings up to the stated length over a representative alphabet", n > 0)
            return
        if shape["part"] == "C":
            return self.part_c(eng, shape)
        common = self.common
        style = shape["style"]
        cls = self.classes[style]
        n = shape["len"]
        codes = [eng.int(f"c{i}", 32, 126) for i in range(n)]
        first = shape.get("first")
        if first and eng.concrete is None:
            c0 = term(codes[0])
            cond = {
                "align": z3.Or(c0 == 60, c0 == 124, c0 == 62), "digit": z3.And(c0 >= 48, c0 <= 57), "dot": c0 == 46, "hash": c0 == 35, "plus": c0 == 43,
            }
            if first == "other":
                eng.assume(SymBool(z3.Not(z3.Or(*cond.values()))))
            else:
                eng.assume(SymBool(cond[first]))
        tw, th = eng.int("term_cols", 1), eng.int("term_lines", 1)
        common.get_terminal_size = lambda: TS((tw, th))
        spec = "".join(chr(c) for c in codes) if eng.concrete is not None else CStr([term(c) for c in codes])
        try:
            got = cls._check_format_spec(spec)
            outcome = "ok"
        except common.StyleError:
            got, outcome = None, "StyleError"
        except ValueError:
            got, outcome = None, "ValueError"
        ref = ref_parse(spec, style)
        eng.reachable()
        if ref is None:
            eng.claim("not a sentence of the documented grammar => rejected with ValueError", outcome == "ValueError")
            return
        st = ref.get("style_text")
        rstyle = ref_style(st, style) if st is not None else {}
        if isinstance(rstyle, str):
            eng.claim(f"style part invalid for the render style => rejected with {rstyle}", outcome == rstyle)
            return
        eng.claim("sentence of the documented grammar => accepted", outcome == "ok")
        if outcome != "ok":
            return
        h_align, width, v_align, height, alpha, style_args = got
        ew = ref["width"] if ref["width"] is not None else 0
        eh = ref["height"] if ref["height"] is not None else 0
        W = core.sym_if(ew > 0, ew, core.sym_if(tw > 1, tw, 1))
        rel = 0 if ref["height"] is not None else -2  # a written 0 is the relative dimension 0; absent = default -2
        H = core.sym_if(eh > 0, eh, core.sym_if(th + rel > 1, th + rel, 1))
        eng.claim("alignment fields as written", z3.And(same_value(h_align, ref["h_align"]), same_value(v_align, ref["v_align"])))
        eng.claim("padding size: the written value; zero = the terminal dimension; absent = terminal-relative default (columns / lines - 2)", sym_and(width == W, height == H))
        eng.claim("transparency setting as documented (default threshold / disabled / threshold / '#' / '#rrggbb')", same_value(alpha, ref["alpha"]))
        keys_ok = set(style_args) == set(rstyle)
        eng.claim("style arguments: exactly the documented ones", keys_ok)
        if keys_ok:
            eng.claim("style argument values as documented", z3.And(*[same_value(style_args[k], rstyle[k]) for k in rstyle]) if rstyle else True)
        # formatting with the specifier == drawing with the equivalent explicit parameters
        fmt = cls._check_formatting(ref["h_align"] if ref["h_align"] is None else self.as_str(ref["h_align"]), ew, ref["v_align"] if ref["v_align"] is None else self.as_str(ref["v_align"]), eh if ref["height"] is not None else -2)
        eng.claim("format(spec) and draw(equivalent parameters) compute the same formatting", z3.And(same_value(fmt[0], h_align), same_value(fmt[2], v_align), term(fmt[1]) == term(width), term(fmt[3]) == term(height)))
        eng.observe("fmt", (width, height))

    def part_c(self, eng, shape):
        """an accepted specifier means the same every time it is used: terminal-relative padding follows the terminal
        size at the time of use, and a rejected specifier in between leaves no trace"""
        common, cls, spec = self.common, self.classes[shape["style"]], shape["spec"]
        ref = ref_parse(spec, shape["style"])
        ew = ref["width"] if ref["width"] is not None else 0
        eh = ref["height"] if ref["height"] is not None else 0
        rel = 0 if ref["height"] is not None else -2
        results = []
        for k in range(3):
            tw, th = eng.int(f"term_cols_{k}", 1), eng.int(f"term_lines_{k}", 1)
            common.get_terminal_size = lambda tw=tw, th=th: TS((tw, th))
            if k == 1:
                for bad in ("x", "1.", "#zz", "+"):
                    try:
                        cls._check_format_spec(bad)
                        eng.claim("a non-sentence is rejected", False)
                    except ValueError:
                        pass
            h_align, width, v_align, height, alpha, style_args = cls._check_format_spec(spec)
            W = core.sym_if(ew > 0, ew, core.sym_if(tw > 1, tw, 1))
            H = core.sym_if(eh > 0, eh, core.sym_if(th + rel > 1, th + rel, 1))
            eng.claim(f"use {k + 1}: padding size is the written value, else relative to the terminal size at the time of use", sym_and(width == W, height == H))
            results.append((h_align, v_align, alpha, dict(style_args)))
            style_args["caller_scribble"] = k  # what a caller does with its result must not leak into later uses
        eng.reachable()
        eng.claim("alignment, transparency and style arguments are the same on every use", all(r == results[0] for r in results[1:]))
        eng.observe("fmt", (width, height))

    @staticmethod
    def as_str(c):
        return c.concretize() if isinstance(c, CStr) else c


CHECK = C19()
