"""A pty / terminal-emulator model for the query functions (C12, C13): TRUSTED environment.

 * termios: the attribute vector [iflag, oflag, cflag, lflag, ispeed, ospeed, cc] holds z3
   integers; tcgetattr returns fresh copies, tcsetattr stores a copy.
 * the terminal answers every *supported* query of a request with one reply unit; units arrive
   in order after symbolic delays (integer clock ticks); time advances only inside select().
 * os.read delivers bytes of units that have arrived; reading costs no time.
 * every system call is a fault point: a symbolic fault index decides where an exception
   (KeyboardInterrupt / OSError) is raised, before or after the call took effect.
"""
from __future__ import annotations

import copy

import z3

from sx import core
from sx.core import SymBool, SymInt, sym_and, term
from sx.rx import CStr

ECHO, ICANON = 0o10, 0o2
VMIN, VTIME = 6, 5
TCSANOW, TCSAFLUSH = 0, 2


class Blocked(Exception):
    """the library kept waiting beyond any bound"""


class Fault(BaseException):
    pass


class Pty:
    def __init__(self, eng, timeout_ticks=100):
        self.eng = eng
        self.now = 0  # SymInt ticks
        self.queue = []  # [arrival (SymInt), CStr bytes, position]
        self.attr0 = [eng.int("iflag", 0), eng.int("oflag", 0), eng.int("cflag", 0), eng.int("lflag", 0), eng.int("ispeed", 0), eng.int("ospeed", 0),
                      [eng.int(f"cc{i}", 0, 255) if i in (VMIN, VTIME) else i for i in range(8)]]
        self.attr = self._copy(self.attr0)
        self.written = []
        self.calls = 0
        self.selects = 0
        self.fault_at = None
        self.fault_after = False
        self.fault_exc = KeyboardInterrupt
        self.responder = None
        self.timeout_ticks = timeout_ticks
        self.log = []

    @staticmethod
    def _copy(a):
        return [a[0], a[1], a[2], a[3], a[4], a[5], list(a[6])]

    # ------------------------------------------------------------ fault points
    def _syscall(self, name, effect, restoring=False):
        k = self.calls
        self.calls += 1
        self.log.append(name)
        hit = self.fault_at is not None and bool(self.fault_at == k)
        if hit and not self.fault_after and not restoring:
            raise self.fault_exc()
        r = effect()
        if hit and self.fault_after:
            raise self.fault_exc()
        return r

    # ------------------------------------------------------------------ termios
    def tcgetattr(self, fd):
        return self._syscall("tcgetattr", lambda: self._copy(self.attr))

    def tcsetattr(self, fd, when, attrs):
        restoring = self.same_attrs(attrs, self.attr0, syntactic=True)

        def eff():
            self.attr = self._copy(attrs)
            if when == TCSAFLUSH:
                # pending input is discarded
                self.queue = [q for q in self.queue if not bool(q[0] <= self.now)]

        return self._syscall("tcsetattr", eff, restoring)

    def tcdrain(self, fd):
        return self._syscall("tcdrain", lambda: None)

    def same_attrs(self, a, b, syntactic=False):
        conds = [term(x) == term(y) for x, y in zip(a[:6], b[:6])] + [term(x) == term(y) for x, y in zip(a[6], b[6])]
        c = z3.simplify(z3.And(*conds))
        if syntactic:
            return z3.is_true(c)
        return c

    # ---------------------------------------------------------------------- I/O
    def os_write(self, fd, data):
        def eff():
            self.written.append(data)
            if self.responder:
                t = self.now
                for delay, unit in self.responder(bytes(data)):
                    t = t + delay
                    self.queue.append([t, unit, 0])
            return len(data)

        return self._syscall("write", eff)

    def _ready(self):
        return bool(self.queue) and bool(self.queue[0][0] <= self.now)

    def select(self, r, w, x, timeout=None):
        if type(timeout) is float and timeout == int(timeout):
            timeout = int(timeout)  # the clock of the model counts integer ticks
        self.selects += 1
        if self.selects > 400:
            raise Blocked("select() called more than 400 times")

        def eff():
            if self._ready():
                return (r, [], [])
            if self.queue:
                arr = self.queue[0][0]
                if timeout is None or bool(arr <= self.now + timeout):
                    self.now = arr
                    return (r, [], [])
            if timeout is None:
                raise Blocked("select() without timeout and nothing will ever arrive")
            self.now = self.now + timeout
            return ([], [], [])

        return self._syscall("select", eff)

    def os_read(self, fd, n):
        def eff():
            out = []
            while len(out) < n and self._ready():
                q = self.queue[0]
                out.append(q[1].cs[q[2]])
                q[2] += 1
                if q[2] >= len(q[1].cs):
                    self.queue.pop(0)
            if not out and not self._ready():
                # VMIN=0: returns nothing when there is no input
                return CStr([]) if core.ENG is not None else b""
            if core.ENG is None:
                return bytes(int(z3.simplify(core.term(c)).as_long()) if not isinstance(c, int) else c for c in out)
            return CStr(out)

        return self._syscall("read", eff)

    def monotonic(self):
        return self.now

    def pending_bytes(self):
        return sum(len(q[1].cs) - q[2] for q in self.queue)

    # ---------------------------------------------------------------- install
    def install(self, utils):
        ns = type("termios", (), {})
        t = ns()
        t.tcgetattr, t.tcsetattr, t.tcdrain = self.tcgetattr, self.tcsetattr, self.tcdrain
        t.ECHO, t.ICANON, t.VMIN, t.VTIME, t.TCSANOW, t.TCSAFLUSH = ECHO, ICANON, VMIN, VTIME, TCSANOW, TCSAFLUSH
        t.TIOCGWINSZ = 0x5413
        t.error = OSError
        utils.termios = t
        utils.select = self.select
        utils.monotonic = self.monotonic
        real_os = utils.os
        shim = type("os", (), {})()
        for nm in dir(real_os):
            if not nm.startswith("__"):
                try:
                    setattr(shim, nm, getattr(real_os, nm))
                except Exception:  # noqa: BLE001
                    pass
        shim.read, shim.write = self.os_read, self.os_write
        utils.os = shim
        utils._tty_fd = 99
        utils._query_timeout = self.timeout_ticks
        return t


def text(s):
    return CStr([ord(c) for c in s])


def digits(eng, name, k, hexa=False):
    """k symbolic digit characters (decimal or hexadecimal) and their integer value"""
    cs, v = [], z3.IntVal(0)
    for i in range(k):
        c = eng.int(f"{name}_c{i}", 48, 102)
        if hexa:
            eng.assume(SymBool(z3.Or(z3.And(term(c) >= 48, term(c) <= 57), z3.And(term(c) >= 65, term(c) <= 70), z3.And(term(c) >= 97, term(c) <= 102))))
            d = z3.If(term(c) <= 57, term(c) - 48, z3.If(term(c) <= 70, term(c) - 55, term(c) - 87))
            v = v * 16 + d
        else:
            eng.assume(SymBool(z3.And(term(c) >= 48, term(c) <= 57)))
            v = v * 10 + (term(c) - 48)
        cs.append(term(c) if core.ENG is not None else int(c))
    if core.ENG is None:
        return CStr(cs), int(z3.simplify(v).as_long())
    return CStr(cs), SymInt(z3.simplify(v))
