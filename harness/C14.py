"""C14 - terminal access is serialized across threads and processes (Engine B: SMT-based BMC).

The synchronisation skeleton (acquisitions of the object the global `_tty_lock` currently
names, the lock hand-over in the Process.start wrapper, the adoption in the Process.run
wrapper) is EXTRACTED FROM THE CURRENT SOURCE with `ast`; the interleavings of threads and
processes are explored by z3 over an unrolled transition relation with one scheduler-choice
variable per step.  A satisfying trace is replayed on the REAL functions: real threads run the
real lock_tty wrapper / start wrapper / run wrapper with instrumented lock classes, and a
controller enforces the solver's schedule.
"""
from __future__ import annotations

import ast
import os
import threading

import z3

from sx import core
from sx.core import term
from sx.driver import Check

# ----------------------------------------------------------------------------------------
# 1. skeleton extraction


class SkeletonError(Exception):
    pass


def _find_func(tree, name):
    for n in ast.walk(tree):
        if isinstance(n, ast.FunctionDef) and n.name == name:
            return n
    raise SkeletonError(f"function {name} not found")


def _with_items_named(node, gname):
    return [it for it in node.items if isinstance(it.context_expr, ast.Name) and it.context_expr.id == gname]


def parse_guard(test):
    """the condition under which the start wrapper hands over to a new process lock:
    [not] isinstance(<_tty_lock | self._tty_lock | getattr(self, '_tty_lock', None)>, <_rlock_type | type(_tty_lock)>)
    -> (negated, subject, type)"""
    neg = False
    while isinstance(test, ast.UnaryOp) and isinstance(test.op, ast.Not):
        test, neg = test.operand, not neg
    if not (isinstance(test, ast.Call) and getattr(test.func, "id", "") == "isinstance" and len(test.args) == 2):
        raise SkeletonError("hand-over condition is not an isinstance test")
    x, t = test.args
    if isinstance(x, ast.Name) and x.id == "_tty_lock":
        subject = "global"
    elif isinstance(x, ast.Attribute) and x.attr == "_tty_lock" and getattr(x.value, "id", "") == "self":
        subject = "attr"
    elif (isinstance(x, ast.Call) and getattr(x.func, "id", "") == "getattr" and len(x.args) >= 2 and getattr(x.args[0], "id", "") == "self"
          and isinstance(x.args[1], ast.Constant) and x.args[1].value == "_tty_lock"):
        subject = "attr"
    else:
        raise SkeletonError("hand-over condition tests an unrecognised object")
    if isinstance(t, ast.Name) and t.id == "_rlock_type":
        typ = "thread_type"
    elif isinstance(t, ast.Call) and getattr(t.func, "id", "") == "type" and len(t.args) == 1 and getattr(t.args[0], "id", "") == "_tty_lock":
        typ = "type_of_global"
    else:
        raise SkeletonError("hand-over condition tests against an unrecognised type")
    return (neg, subject, typ)


def extract(src):
    """-> dict describing the lock protocol of the current source"""
    tree = ast.parse(src)
    out = {}
    # lock_tty_wrapper: how many times is the global acquired around the call?
    w = _find_func(tree, "lock_tty_wrapper")
    withs = [n for n in ast.walk(w) if isinstance(n, ast.With)]
    acq = []
    for wn in withs:
        acq += [it for it in _with_items_named(wn, "_tty_lock")]
    if not acq:
        raise SkeletonError("lock_tty_wrapper does not acquire _tty_lock")
    calls_inside = any(isinstance(n, ast.Call) and isinstance(n.func, ast.Name) and n.func.id == "func" for wn in withs for n in ast.walk(wn))
    if not calls_inside:
        raise SkeletonError("lock_tty_wrapper does not call func inside the with block")
    out["wrapper_acquisitions"] = len(acq)
    # _process_start_wrapper
    s = _find_func(tree, "_process_start_wrapper")
    glob = {n for st in s.body if isinstance(st, ast.Global) for n in st.names}
    out["start_global"] = "_tty_lock" in glob
    swith = [st for st in s.body if isinstance(st, ast.With) and _with_items_named(st, "_tty_lock")]
    out["start_holds_lock"] = bool(swith)
    swap_global = store_attr_new = store_attr_old = False
    search_root = swith[0] if swith else s
    guard = None
    for n in ast.walk(search_root):
        if isinstance(n, ast.If):
            makes_lock = any(isinstance(a, ast.Assign) and isinstance(a.value, ast.Call) and getattr(a.value.func, "id", "") == "mp_RLock"
                             for a in ast.walk(ast.Module(body=n.body, type_ignores=[])))
            if makes_lock:
                guard = parse_guard(n.test)
                for a in ast.walk(ast.Module(body=n.body, type_ignores=[])):
                    if isinstance(a, ast.Assign) and isinstance(a.value, ast.Call) and getattr(a.value.func, "id", "") == "mp_RLock":
                        for tg in a.targets:
                            if isinstance(tg, ast.Name) and tg.id == "_tty_lock":
                                swap_global = True
                            if isinstance(tg, ast.Attribute) and tg.attr == "_tty_lock":
                                store_attr_new = True
                for a in ast.walk(ast.Module(body=n.orelse, type_ignores=[])):
                    if isinstance(a, ast.Assign) and getattr(a.value, "id", "") == "_tty_lock":
                        for tg in a.targets:
                            if isinstance(tg, ast.Attribute) and tg.attr == "_tty_lock":
                                store_attr_old = True
    if (swap_global or store_attr_new) and guard is None:
        raise SkeletonError("the condition guarding the lock hand-over was not recognised")
    out.update(swap_global=swap_global and out["start_global"], store_attr_new=store_attr_new, store_attr_old=store_attr_old, guard=guard or (False, "global", "thread_type"))
    # the start itself must come after the with block
    out["start_after_release"] = any(
        isinstance(n, ast.Return) and isinstance(n.value, ast.Call) and isinstance(n.value.func, ast.Attribute) and n.value.func.attr == "__wrapped__" for n in s.body
    )
    # _process_run_wrapper
    r = _find_func(tree, "_process_run_wrapper")
    rglob = {n for st in r.body if isinstance(st, ast.Global) for n in st.names}
    adopt = False
    for n in ast.walk(r):
        if isinstance(n, ast.Assign) and isinstance(n.value, ast.Attribute) and n.value.attr == "_tty_lock":
            if any(isinstance(tg, ast.Name) and tg.id == "_tty_lock" for tg in n.targets):
                adopt = True
    out["adopt_global"] = adopt and "_tty_lock" in rglob
    # are the wrappers installed on Process?
    out["installed"] = "Process.start = " in src and "Process.run = " in src
    return out


ENTRY_POINTS = {
    # the terminal-touching entry points the library documents as synchronized (decorated with lock_tty)
    "utils": ["query_terminal", "read_tty", "write_tty"],
    "urwid": ["draw_screen", "flush", "get_available_raw_input", "write"],
}
INLINE_LOCKED = ["get_fg_bg_colors", "get_terminal_name_version"]  # hold the lock with an inline `with` around several queries


def extract_entry_points(utils_src, urwid_src):
    """-> {name: True/False (decorated with lock_tty)}, {name: number of inline acquisitions}"""
    out, inline = {}, {}
    ut, ur = ast.parse(utils_src), ast.parse(urwid_src)

    def decorated(fn):
        return any((isinstance(d, ast.Name) and d.id == "lock_tty") or (isinstance(d, ast.Attribute) and d.attr == "lock_tty") for d in fn.decorator_list)

    for name in ENTRY_POINTS["utils"]:
        out[name] = decorated(_find_func(ut, name))
    screen = next((n for n in ast.walk(ur) if isinstance(n, ast.ClassDef) and n.name == "UrwidImageScreen"), None)
    if screen is None:
        raise SkeletonError("class UrwidImageScreen not found")
    for name in ENTRY_POINTS["urwid"]:
        fn = next((n for n in screen.body if isinstance(n, ast.FunctionDef) and n.name == name), None)
        out[name] = bool(fn is not None and decorated(fn))
    io_calls = {"query_terminal", "read_tty", "write_tty", "read_tty_all"}
    for name in INLINE_LOCKED:
        fns = [n for n in ast.walk(ut) if isinstance(n, ast.FunctionDef) and n.name == name]  # (typing overloads share the name)
        inline[name] = max([len(_with_items_named(w, "_tty_lock")) for fn in fns for w in ast.walk(fn) if isinstance(w, ast.With)] or [0])
        # every terminal I/O call of such a function must sit inside its `with <lock>` block: a query and the read that
        # drains the rest of its reply are one critical section
        for fn in fns:
            inside = {id(c) for w in ast.walk(fn) if isinstance(w, ast.With) and _with_items_named(w, "_tty_lock") for c in ast.walk(w) if isinstance(c, ast.Call)}
            for c in ast.walk(fn):
                if isinstance(c, ast.Call) and getattr(c.func, "id", "") in io_calls and id(c) not in inside:
                    inline[name] = 0
    return out, inline


# ----------------------------------------------------------------------------------------
# 2. micro-op programs

# op kinds: ("acq",) read the process' global lock and acquire it (blocking, re-entrant)
#           ("read",)  evaluate the global lock expression into the thread's temporary
#           ("enter",) / ("exit",)  critical section of a synchronized function
#           ("rel",)   release the most recently acquired lock
#           ("swap", child)  inside the start wrapper: hand-over to a process lock, store it on the child
#           ("spawn", child) the child process starts (its globals: copy of the parent's for fork, fresh for spawn)
#           ("adopt",) first action of a child: take over the lock stored on its Process object


def call_ops(sk, nested=False):
    # `with X` = evaluate the global (read) ... then acquire that object: two separately scheduled steps
    # Reductions that keep the mutual-exclusion / deadlock verdicts: the body is entered atomically with the last
    # acquisition and left atomically with the first release (the agent counts as "inside" for a superset of the
    # real time); the body of a nested call has no shared effect and is dropped.
    n = sk["wrapper_acquisitions"]
    acq = [("read",), ("acq",)] * n
    ops = acq[:-1] + [("acq_enter",)]
    if nested:
        ops += acq + [("rel",)] * n
    ops += [("exit_rel",)] + [("rel",)] * (n - 1)
    return ops


def start_ops(sk, child):
    ops = []
    if sk["start_holds_lock"]:
        ops += [("read",), ("acq",)]
    ops.append(("swap", child))
    if sk["start_holds_lock"]:
        ops.append(("rel",))
    ops.append(("spawn", child))
    return ops


SCENARIOS = {
    # name: (processes {pid: parent pid}, agents [(name, pid, program spec)])
    "threads2": ({0: None}, [("T0", 0, ["call_nested"]), ("T1", 0, ["call"])]),
    "threads3": ({0: None}, [("T0", 0, ["call"]), ("T1", 0, ["call_nested"]), ("T2", 0, ["call"])]),
    "start_race_min": ({0: None, 1: 0}, [("T0", 0, ["call"]), ("T1", 0, [("start", 1)]), ("C1", 1, ["adopt", "call"])]),
    "start_race": ({0: None, 1: 0}, [("T0", 0, ["call"]), ("T1", 0, [("start", 1), "call"]), ("C1", 1, ["adopt", "call"])]),
    "grandchild_min": ({0: None, 1: 0, 2: 1}, [("T0", 0, [("start", 1), "call"]), ("C1", 1, ["adopt", ("start", 2)]), ("C2", 2, ["adopt", "call"])]),
    "two_children": ({0: None, 1: 0, 2: 0}, [("T0", 0, [("start", 1), ("start", 2), "call"]), ("C1", 1, ["adopt", "call"]), ("C2", 2, ["adopt", "call"])]),
    "grandchild": ({0: None, 1: 0, 2: 1}, [("T0", 0, [("start", 1), "call"]), ("C1", 1, ["adopt", ("start", 2), "call"]), ("C2", 2, ["adopt", "call"])]),
    "call_then_start": ({0: None, 1: 0}, [("T0", 0, ["call", ("start", 1), "call"]), ("T1", 0, ["call"]), ("C1", 1, ["adopt", "call_nested"])]),
}


def scenario_spec(scenario):
    if scenario.startswith("entry:"):
        x = scenario.split(":", 1)[1]
        partner = "query_terminal" if x != "query_terminal" else "read_tty"
        return {0: None}, [("T0", 0, [("entry", x)]), ("T1", 0, [("entry", partner)])]
    return SCENARIOS[scenario]


def build_programs(sk, scenario):
    procs, agents = scenario_spec(scenario)
    progs = {}
    for name, pid, spec in agents:
        ops = []
        for s in spec:
            if s == "call":
                ops += call_ops(sk)
            elif s == "call_nested":
                ops += call_ops(sk, True)
            elif s == "adopt":
                ops.append(("adopt",))
            elif s[0] == "entry":
                # a documented entry point: synchronized iff the current source decorates it
                ops += call_ops(sk) if sk["entry"].get(s[1]) else [("enter",), ("exit",)]
            else:
                ops += start_ops(sk, s[1])
        progs[name] = (pid, ops)
    return procs, progs


# ----------------------------------------------------------------------------------------
# 3. BMC encoding


BW = 5  # bit width of every state variable (finite-domain encoding, bit-blasted by z3)


def encode(solver, sk, scenario, start_method, K):
    """Unrolled transition relation; returns (bad_mutex, bad_deadlock, info)."""
    procs, progs = build_programs(sk, scenario)
    names = list(progs)
    A = len(names)
    # lock ids: 1+pid = the thread lock a process is born with (fresh import); 8+child = process lock created when starting `child`
    NONE = 31
    locks = [1 + p for p in procs] + [8 + p for p in procs if procs[p] is not None]

    def I(v):
        return z3.BitVecVal(v, BW)

    def const(nm):
        return z3.BitVec(nm, BW)

    class _E:
        pass

    eng = _E()
    eng._add = solver.add

    # state at step k
    def new_state(k):
        return dict(
            pc={a: const(f"pc_{a}_{k}") for a in names},
            g={p: const(f"glob_{p}_{k}") for p in procs},
            attr={p: const(f"attr_{p}_{k}") for p in procs},
            alive={p: z3.Bool(f"alive_{p}_{k}") for p in procs},
            owner={l: const(f"owner_{l}_{k}") for l in locks},
            count={l: const(f"count_{l}_{k}") for l in locks},
            # per agent: stack of held locks (bounded depth)
            held={a: [const(f"held_{a}_{d}_{k}") for d in range(6)] for a in names},
            tmp={a: const(f"tmp_{a}_{k}") for a in names},
            depth={a: const(f"depth_{a}_{k}") for a in names},
        )

    s0 = new_state(0)
    init = []
    for a in names:
        init += [s0["pc"][a] == 0, s0["depth"][a] == 0, s0["tmp"][a] == NONE] + [h == NONE for h in s0["held"][a]]
    for p in procs:
        init += [s0["g"][p] == (1 + p if procs[p] is None else NONE), s0["attr"][p] == NONE, s0["alive"][p] == z3.BoolVal(procs[p] is None)]
    for l in locks:
        init += [s0["owner"][l] == NONE, s0["count"][l] == 0]
    for c in init:
        eng._add(c)
    states = [s0]
    sched = []
    idx = {a: i for i, a in enumerate(names)}

    def is_thread_lock(e):
        return z3.And(z3.UGE(e, 1), z3.ULT(e, 8))

    for k in range(K):
        s, n = states[-1], new_state(k + 1)
        cht = const(f"sched_{k}")
        solver.add(z3.ULT(cht, A))
        sched.append(cht)
        trans = []
        # default frame: everything unchanged unless the chosen agent's enabled op changes it
        upd = {("pc", a): s["pc"][a] for a in names}
        upd.update({("depth", a): s["depth"][a] for a in names})
        upd.update({("tmp", a): s["tmp"][a] for a in names})
        for a in names:
            for d in range(6):
                upd[("held", a, d)] = s["held"][a][d]
        for p in procs:
            upd[("g", p)], upd[("attr", p)], upd[("alive", p)] = s["g"][p], s["attr"][p], s["alive"][p]
        for l in locks:
            upd[("owner", l)], upd[("count", l)] = s["owner"][l], s["count"][l]

        def put(key, cond, val):
            upd[key] = z3.If(cond, val, upd[key])

        for a in names:
            pid, ops = progs[a]
            ai = I(idx[a])
            for j, op in enumerate(ops):
                here = z3.And(cht == idx[a], s["pc"][a] == j, s["alive"][pid])
                if op[0] == "read":
                    put(("tmp", a), here, s["g"][pid])
                    put(("pc", a), here, I(j + 1))
                elif op[0] in ("acq", "acq_enter"):
                    tgt = s["tmp"][a]
                    for l in locks:
                        free = z3.Or(s["owner"][l] == NONE, s["owner"][l] == ai)
                        c = z3.And(here, tgt == l, free)
                        put(("owner", l), c, ai)
                        put(("count", l), c, s["count"][l] + 1)
                        put(("pc", a), c, I(j + 1))
                        put(("depth", a), c, s["depth"][a] + 1)
                        for d in range(6):
                            put(("held", a, d), z3.And(c, s["depth"][a] == d), I(l))
                elif op[0] in ("rel", "exit_rel"):
                    for l in locks:
                        for d in range(1, 7):
                            c = z3.And(here, s["depth"][a] == d, s["held"][a][d - 1] == l)
                            put(("count", l), c, s["count"][l] - 1)
                            put(("owner", l), z3.And(c, s["count"][l] == 1), I(NONE))
                            put(("pc", a), c, I(j + 1))
                            put(("depth", a), c, I(d - 1))
                            put(("held", a, d - 1), c, I(NONE))
                elif op[0] in ("enter", "exit", "enter2", "exit2"):
                    put(("pc", a), here, I(j + 1))
                elif op[0] == "swap":
                    child = op[1]
                    newl = I(8 + child)
                    # the hand-over condition as written in the source, evaluated on the model state
                    neg, subject, typ = sk["guard"]
                    g_thr = is_thread_lock(s["g"][pid])
                    if subject == "global":
                        isthr = g_thr if typ == "thread_type" else z3.BoolVal(True)
                    else:
                        at = s["attr"][child]
                        same_kind = is_thread_lock(at) if typ == "thread_type" else (is_thread_lock(at) == g_thr)
                        isthr = z3.And(at != NONE, same_kind)
                    if neg:
                        isthr = z3.Not(isthr)
                    if sk["swap_global"]:
                        put(("g", pid), z3.And(here, isthr), newl)
                    if sk["store_attr_new"]:
                        put(("attr", child), z3.And(here, isthr), newl)
                    if sk["store_attr_old"]:
                        put(("attr", child), z3.And(here, z3.Not(isthr)), s["g"][pid])
                    put(("pc", a), here, I(j + 1))
                elif op[0] == "spawn":
                    child = op[1]
                    put(("alive", child), here, z3.BoolVal(True))
                    if start_method == "fork":
                        # globals are copied; a copied thread lock is a distinct (fresh) lock of the child
                        put(("g", child), here, z3.If(is_thread_lock(s["g"][pid]), I(1 + child), s["g"][pid]))
                    else:
                        put(("g", child), here, I(1 + child))
                    put(("pc", a), here, I(j + 1))
                elif op[0] == "adopt":
                    if sk["adopt_global"] and sk["installed"]:
                        put(("g", pid), z3.And(here, s["attr"][pid] != NONE), s["attr"][pid])
                    put(("pc", a), here, I(j + 1))
        for a in names:
            trans.append(n["pc"][a] == upd[("pc", a)])
            trans.append(n["depth"][a] == upd[("depth", a)])
            trans.append(n["tmp"][a] == upd[("tmp", a)])
            for d in range(6):
                trans.append(n["held"][a][d] == upd[("held", a, d)])
        for p in procs:
            trans += [n["g"][p] == upd[("g", p)], n["attr"][p] == upd[("attr", p)], n["alive"][p] == upd[("alive", p)]]
        for l in locks:
            trans += [n["owner"][l] == upd[("owner", l)], n["count"][l] == upd[("count", l)]]
        for c in trans:
            eng._add(c)
        states.append(n)

    def inside(s, a):
        pid, ops = progs[a]
        ent = [j for j, op in enumerate(ops) if op[0] in ("acq_enter", "enter")]
        ext = [j for j, op in enumerate(ops) if op[0] in ("exit_rel", "exit")]
        return z3.Or(*[z3.And(z3.UGT(s["pc"][a], e), z3.ULE(s["pc"][a], x)) for e, x in zip(ent, ext)])

    bad_mutex = z3.Or(*[z3.And(inside(s, a), inside(s, b)) for s in states for i, a in enumerate(names) for b in names[i + 1:]])

    def enabled(s, a):
        pid, ops = progs[a]
        conds = []
        for j, op in enumerate(ops):
            at = z3.And(s["pc"][a] == j, s["alive"][pid])
            if op[0] in ("acq", "acq_enter"):
                conds.append(z3.And(at, z3.Or(*[z3.And(s["tmp"][a] == l, z3.Or(s["owner"][l] == NONE, s["owner"][l] == idx[a])) for l in locks])))
            else:
                conds.append(at)
        return z3.Or(*conds)

    def finished(s, a):
        pid, ops = progs[a]
        return s["pc"][a] == len(ops)

    def will_never_run(s, a):
        # an agent of a process that nobody can start any more is not counted
        return z3.BoolVal(False)

    # scheduler discipline: a step is never wasted on an agent that cannot move while another one can
    for k, s_ in enumerate(states[:-1]):
        chosen_enabled = z3.Or(*[z3.And(sched[k] == idx[a], enabled(s_, a)) for a in names])
        solver.add(z3.Or(chosen_enabled, z3.Not(z3.Or(*[enabled(s_, a) for a in names]))))
    last = states[-1]
    # deadlock: a state in which some started agent is unfinished and nothing is enabled
    bad_deadlock = z3.Or(*[
        z3.And(z3.Or(*[z3.And(s["alive"][progs[a][0]], z3.Not(finished(s, a))) for a in names]), z3.Not(z3.Or(*[enabled(s, a) for a in names])))
        for s in states
    ])
    total_ops = sum(len(progs[a][1]) for a in names)
    return bad_mutex, bad_deadlock, dict(names=names, progs=progs, procs=procs, sched=sched, total_ops=total_ops, states=states)


# ----------------------------------------------------------------------------------------
# 4. replay of a schedule on the real functions (real threads, instrumented locks)


class Abort(BaseException):
    pass


class Controller:
    """Agent threads park at every synchronisation-relevant action; the controller grants one
    action at a time in the order of the solver's schedule."""

    def __init__(self, names):
        self.names = names
        self.cond = threading.Condition()
        self.state = {n: "notstarted" for n in names}
        self.pending = {}
        self.grant = None
        self.abort = False
        self.inside = set()
        self.violation = False

    def park(self, name, lockobj=None):
        with self.cond:
            self.state[name] = "parked"
            self.pending[name] = lockobj
            self.cond.notify_all()
            while self.grant != name and not self.abort:
                self.cond.wait(0.05)
            if self.abort:
                raise Abort()
            self.grant = None
            self.state[name] = "running"
            self.pending[name] = None
            self.cond.notify_all()

    def enabled(self, name):
        lk = self.pending.get(name)
        return lk is None or lk.free_for(name)

    def quiescent(self):
        return all(st in ("parked", "done", "notstarted") for st in self.state.values()) and self.grant is None

    def drive(self, schedule):
        import time

        self.trace = []

        for idx in schedule:
            name = self.names[idx] if idx < len(self.names) else None
            with self.cond:
                t0 = time.time()
                while not self.quiescent() and time.time() - t0 < 5:
                    self.cond.wait(0.01)
                if name is None or self.state.get(name) != "parked" or not self.enabled(name):
                    self.trace.append((name, "skipped:" + str(self.state.get(name))))
                    continue
                self.trace.append((name, "granted"))
                self.grant = name
                self.cond.notify_all()
        with self.cond:
            t0 = time.time()
            while not self.quiescent() and time.time() - t0 < 5:
                self.cond.wait(0.01)
            stuck = [n for n, st in self.state.items() if st == "parked"]
            runnable = [n for n in stuck if self.enabled(n)]
            self.abort = True
            self.cond.notify_all()
        return stuck, runnable


class _ModProxy:
    """attribute view of a globals dict (stands for the module object of one 'process')"""

    def __init__(self, g):
        object.__setattr__(self, "_g", g)

    def __getattr__(self, k):
        return dict.__getitem__(object.__getattribute__(self, "_g"), k)

    def __setattr__(self, k, v):
        dict.__setitem__(object.__getattribute__(self, "_g"), k, v)


class _ModView(dict):
    pass


class C14(Check):
    id = "C14"
    level = "model_checking"
    lift = False
    functions = [
        "term_image.utils:lock_tty",
        "term_image.utils:_process_start_wrapper",
        "term_image.utils:_process_run_wrapper",
    ]
    explanation = (
        "Engine B: the synchronisation skeleton of lock_tty's wrapper, of the Process.start wrapper (lock hand-over) and of the "
        "Process.run wrapper (adoption in the child) is extracted from the current source with ast (number of acquisitions of the global, "
        "whether the hand-over happens while the old lock is held, what is stored on the Process object, whether the child rebinds the "
        "module global).  Scenarios (2-3 threads, a start racing with calls, two children, a grandchild, nested = re-entrant calls) are "
        "unrolled for K scheduler steps into a z3 transition relation over per-thread program counters and held-lock stacks, "
        "per-process globals and lock owner/count tables, with one scheduler-choice variable per step and for the fork and spawn start "
        "methods.  Queries: no reachable state has two agents inside synchronized bodies; no reachable state is a deadlock; re-entrant "
        "calls proceed.  States/transitions reported are the unrolled symbolic ones."
    )
    assumptions = [
        "environment model (trusted): threading.RLock / multiprocessing.RLock are re-entrant mutexes with owner and count; a process lock is shared by all processes holding it; a thread lock copied by fork is a distinct lock in the child; spawn/forkserver children start from a fresh import; the child's first action is the Process.run wrapper",
        "agents: <= 3 threads in the parent, <= 2 child processes (one transitive); each performs <= 2 synchronized calls (one nested) and <= 2 starts; starts from inside a synchronized call are excluded (documented as unsupported)",
        "K is the total number of micro-operations of the scenario plus slack, so every complete interleaving is inside the bound",
        "'each query receives its own reply' follows from mutual exclusion plus C12's sequential result",
    ]
    bounds = {"quick": {"scenarios": ["threads2", "start_race_min", "grandchild_min", "start_race"], "slack": 0}, "thorough": {"scenarios": list(SCENARIOS), "slack": 2}}
    max_paths = 64

    def budget(self, tier):
        return (280, 250000) if tier == "quick" else (3000, 2400000)

    def shapes(self, tier):
        out = [{"part": "skeleton"}, {"part": "discovery"}]
        for sc in self.bounds[tier]["scenarios"]:
            for sm in ("fork", "spawn"):
                if len(SCENARIOS[sc][0]) == 1 and sm == "spawn":
                    continue
                for prop in ("mutex", "deadlock"):
                    out.append({"part": "bmc", "scenario": sc, "start_method": sm, "prop": prop, "slack": self.bounds[tier]["slack"]})
        # every documented entry point against a synchronized query (two threads)
        for names in ENTRY_POINTS.values():
            for x in names:
                out.append({"part": "bmc", "scenario": "entry:" + x, "start_method": "fork", "prop": "mutex", "slack": 0})
        return out

    def setup(self, shape, concrete):
        repo = os.environ.get("TERM_IMAGE_REPO", "/repo")
        self.src = open(os.path.join(repo, "src", "term_image", "utils.py")).read()
        self.sk = extract(self.src)
        self.sk["entry"], self.sk["inline"] = extract_entry_points(self.src, open(os.path.join(repo, "src", "term_image", "widget", "_urwid.py")).read())

    def body(self, eng, shape):
        sk = self.sk
        if shape["part"] == "skeleton":
            eng.reachable()
            eng.claim("skeleton: the wrapper acquires the global lock around the call", sk["wrapper_acquisitions"] >= 1)
            eng.claim("skeleton: the wrappers are installed on multiprocessing.Process", sk["installed"])
            eng.claim("skeleton: functions querying the terminal several times hold the lock around all of their terminal I/O (query and the read draining the rest of the reply)", all(n >= 1 for n in sk["inline"].values()))
            eng.observe("skeleton", sorted([k, int(v)] for k, v in sk.items() if not isinstance(v, (dict, tuple))))
            return
        if shape["part"] == "discovery":
            return self.discovery(eng)
        procs, progs = build_programs(sk, shape["scenario"])
        total = sum(len(ops) for _, ops in progs.values())
        K = total + shape["slack"]
        if eng.concrete is not None:
            return self.replay(eng, shape, K)
        import time

        solver = z3.SolverFor("QF_FD")  # finite-domain back end: bit-blasting + SAT (probed: far faster than QF_BV here)
        solver.set("timeout", min(eng.claim_timeout_ms, int(getattr(eng, "shape_budget_s", 10**6) * 450)))  # two queries per shape
        bad_mutex, bad_deadlock, info = encode(solver, sk, shape["scenario"], shape["start_method"], K)
        eng.mc_states.update((shape["scenario"], k) for k in range(K + 1))
        eng.mc_transitions.update((shape["scenario"], k, a, j) for k in range(K) for a in info["names"] for j in range(len(info["progs"][a][1])))
        # vacuity twin: some schedule runs every agent to completion
        t = time.time()
        solver.push()
        last = info["states"][-1]
        solver.add(z3.And(*[last["pc"][a] == len(info["progs"][a][1]) for a in info["names"]]))
        r = solver.check()
        solver.pop()
        eng.record_claim("twin:all agents can finish within the bound", {"sat": "reached", "unsat": "unreachable"}.get(str(r), "unknown"), time.time() - t)
        name, bad = (("mutual exclusion: no interleaving puts two agents inside synchronized functions at once", bad_mutex) if shape["prop"] == "mutex"
                     else ("no deadlock: in every reachable state with unfinished agents some agent can move (re-entrant calls included)", bad_deadlock))
        t = time.time()
        solver.add(bad)
        r = solver.check()
        model = None
        if r == z3.sat:
            m = solver.model()
            model = {f"sched_{k}": m.eval(v, model_completion=True).as_long() for k, v in enumerate(info["sched"])}
        eng.record_claim(name, str(r), time.time() - t, model)

    # --------------------------------------------------------------- discovery
    def discovery(self, eng):
        """The module-level code that finds the active terminal and installs the Process hooks, executed on a copy of the
        module for every way a terminal can be found (solver-forked: which standard streams are terminals, whether
        /dev/tty can be opened): the hooks must be installed exactly when an active terminal was found."""
        import types
        import warnings

        tree = ast.parse(self.src)
        disc = [n for n in tree.body if isinstance(n, ast.If) and isinstance(n.test, ast.Name) and n.test.id == "OS_IS_UNIX"
                and any(isinstance(x, ast.For) for x in ast.walk(n))]
        if len(disc) != 1:
            raise SkeletonError("terminal discovery block not recognised")
        rest = ast.Module(body=[n for n in tree.body if n is not disc[0]], type_ignores=[])
        repo = os.environ.get("TERM_IMAGE_REPO", "/repo")
        path = os.path.join(repo, "src", "term_image", "utils.py")
        g = {"__name__": "term_image._utils_discovery", "__package__": "term_image", "__file__": path, "__builtins__": __builtins__}
        with warnings.catch_warnings():
            warnings.simplefilter("ignore")
            exec(compile(rest, path, "exec"), g)
        is_tty = {k: bool(eng.bool(f"std{k}_is_a_terminal")) for k in ("out", "in", "err")}
        dev_tty = bool(eng.bool("dev_tty_can_be_opened"))
        fds = {"out": 1, "in": 0, "err": 2}

        def ttyname(fd):
            for k, v in fds.items():
                if v == fd and is_tty[k]:
                    return f"/dev/pts/{v}"
            raise OSError(25, "Inappropriate ioctl for device")

        def open_(p, flags, *a):
            if p == "/dev/tty" and not dev_tty:
                raise OSError(6, "No such device or address")
            return 70

        fake_os = types.SimpleNamespace(**{k: getattr(os, k) for k in dir(os) if not k.startswith("__")})
        fake_os.ttyname, fake_os.open = ttyname, open_
        fake_sys = types.SimpleNamespace(**{f"__std{k}__": types.SimpleNamespace(fileno=lambda v=v: v) for k, v in fds.items()})

        class FakeProcess:
            def start(self):
                pass

            def run(self):
                pass

        orig_start, orig_run = FakeProcess.start, FakeProcess.run
        g.update(os=fake_os, sys=fake_sys, Process=FakeProcess, OS_IS_UNIX=True)
        with warnings.catch_warnings():
            warnings.simplefilter("ignore")
            exec(compile(ast.Module(body=[disc[0]], type_ignores=[]), path, "exec"), g)
        found = g["_tty_fd"] != -1
        hooked = FakeProcess.start is not orig_start and FakeProcess.run is not orig_run
        untouched = FakeProcess.start is orig_start and FakeProcess.run is orig_run
        eng.reachable()
        eng.claim("discovery: an active terminal is found iff a standard stream is a terminal or /dev/tty can be opened", found == (any(is_tty.values()) or dev_tty))
        eng.claim("discovery: the Process.start / Process.run hooks are installed exactly when an active terminal was found - however it was found",
                  hooked if found else untouched)
        eng.observe("found", found)

    # ------------------------------------------------------------------ replay
    def replay(self, eng, shape, K):
        """Drive the REAL wrappers (lock_tty, _process_start_wrapper, _process_run_wrapper) with real threads
        under the solver's schedule.  Each 'process' is a fresh copy of term_image.utils (its own module
        globals); locks are instrumented re-entrant locks whose acquisition / release are controller steps."""
        import importlib.util
        import sys
        import warnings

        repo = os.environ.get("TERM_IMAGE_REPO", "/repo")
        procs, agents = scenario_spec(shape["scenario"])
        names = [a[0] for a in agents]
        spec_of = {a[0]: a for a in agents}
        schedule = [int(eng.concrete.get(f"sched_{k}", 0)) for k in range(K)]
        ctl = Controller(names)
        me = threading.local()

        class ILock:
            def __init__(self):
                self.owner, self.count = None, 0

            def free_for(self, name):
                return self.owner in (None, name)

            def __enter__(self):
                ctl.park(me.name, self)
                self.owner, self.count = me.name, self.count + 1
                return self

            def __exit__(self, *a):
                ctl.park(me.name)
                if getattr(me, "leaving_body", False):
                    # the model's "exit + first release" step
                    me.leaving_body = False
                    with ctl.cond:
                        if ctl.inside - {me.name}:
                            ctl.violation = True
                        ctl.inside.discard(me.name)
                self.count -= 1
                if self.count == 0:
                    self.owner = None
                return False

        class IMPLock(ILock):
            pass

        sys.path.insert(0, os.path.join(repo, "src"))
        warnings.simplefilter("ignore")
        import term_image  # noqa: F401

        class Globals(dict):
            """module globals of one 'process': evaluating `_tty_lock` for a `with` statement is a controller step
            (every read inside lock_tty_wrapper; the first read inside _process_start_wrapper)"""

            def __getitem__(self, k):
                if k == "_tty_lock":
                    name = getattr(me, "name", None)
                    fn = sys._getframe(1).f_code.co_name
                    if name is not None:
                        if fn == "lock_tty_wrapper":
                            ctl.park(name)
                        elif fn == "_process_start_wrapper":
                            if me.start_reads == 0:
                                ctl.park(name)
                            me.start_reads += 1
                return dict.__getitem__(self, k)

        def load_utils(tag):
            import types as _types

            path = os.path.join(repo, "src", "term_image", "utils.py")
            g = Globals()
            g.update({"__name__": f"term_image._utils_copy_{tag}", "__package__": "term_image", "__file__": path, "__builtins__": __builtins__})
            exec(compile(open(path).read(), path, "exec"), g)
            mod = _ModProxy(g)
            mod.mp_RLock = IMPLock
            mod._tty_lock = ILock()
            mod._rlock_type = ILock
            mod._cell_size_lock = threading.RLock()
            return mod

        mods = {0: load_utils("p0")}
        threads = []

        def is_synchronized(fname):
            if fname in ENTRY_POINTS["utils"]:
                f = getattr(mods[0], fname)
            else:
                from term_image.widget import _urwid as UW

                f = getattr(UW.UrwidImageScreen, fname, None)
            while f is not None:  # other decorators may sit on top of lock_tty's wrapper
                if getattr(getattr(f, "__code__", None), "co_name", "") == "lock_tty_wrapper":
                    return True
                f = getattr(f, "__wrapped__", None)
            return False

        class FakeProcess:
            """stands for a multiprocessing.Process object; storing the lock on it is the model's 'swap' step"""

            def __setattr__(self, k, v):
                if k == "_tty_lock":
                    ctl.park(me.name)
                if k == "_cell_size_cache":
                    v = None  # the cell-size cache hand-over is not part of this property
                object.__setattr__(self, k, v)

        fake = {}

        def run_agent(name):
            _, pid, spec = spec_of[name]
            me.name = name
            mod = mods[pid]
            try:
                for s_ in spec:
                    if isinstance(s_, tuple) and s_[0] == "entry":
                        # what the real entry point does about the lock, read off the real (imported) object
                        def probe_e():
                            with ctl.cond:
                                if ctl.inside - {name}:
                                    ctl.violation = True
                                ctl.inside.add(name)
                            me.leaving_body = True

                        probe_e.__module__ = "probe"
                        if is_synchronized(s_[1]):
                            mod.lock_tty(probe_e)()
                        else:
                            ctl.park(name)  # enter
                            probe_e()
                            me.leaving_body = False
                            ctl.park(name)  # exit
                            with ctl.cond:
                                ctl.inside.discard(name)
                    elif s_ == "adopt":
                        ctl.park(name)
                        mod._process_run_wrapper.__wrapped__ = lambda self_, *a, **k: None
                        mod._process_run_wrapper(fake[pid])
                    elif s_ in ("call", "call_nested"):
                        nested = s_ == "call_nested"

                        def inner():
                            pass

                        inner.__module__ = "probe"

                        def probe():
                            # entering / leaving the body is atomic with the last acquisition / first release (as in the model)
                            with ctl.cond:
                                if ctl.inside - {name}:
                                    ctl.violation = True
                                ctl.inside.add(name)
                            if nested:
                                mod.lock_tty(inner)()
                            me.leaving_body = True  # leaves the body together with the first release

                        probe.__module__ = "probe"
                        mod.lock_tty(probe)()
                    else:
                        child = s_[1]
                        fp = FakeProcess()
                        fake[child] = fp

                        def do_start(self_, *a, child=child, **k):
                            ctl.park(name)  # spawn
                            cm = load_utils(f"p{child}")
                            if shape["start_method"] == "fork":
                                g = mod._tty_lock
                                cm._tty_lock = g if isinstance(g, IMPLock) else ILock()
                            mods[child] = cm
                            for n2, (_, p2, _) in spec_of.items():
                                if p2 == child:
                                    with ctl.cond:
                                        ctl.state[n2] = "running"
                                    t = threading.Thread(target=run_agent, args=(n2,), daemon=True)
                                    threads.append(t)
                                    t.start()

                        mod._process_start_wrapper.__wrapped__ = do_start
                        me.start_reads = 0
                        mod._process_start_wrapper(fp)
            except Abort:
                return
            with ctl.cond:
                ctl.state[name] = "done"
                ctl.cond.notify_all()

        for name, pid, spec in agents:
            if pid == 0:
                ctl.state[name] = "running"
                t = threading.Thread(target=run_agent, args=(name,), daemon=True)
                threads.append(t)
                t.start()
        stuck, runnable = ctl.drive(schedule)
        if os.environ.get("SX_TRACE"):
            print("C14 replay trace:", ctl.trace, "stuck", stuck, file=sys.stderr)
        eng.reachable()
        if shape["prop"] == "mutex":
            eng.claim("mutual exclusion: no interleaving puts two agents inside synchronized functions at once", not ctl.violation)
        else:
            deadlocked = bool(stuck) and not runnable
            eng.claim("no deadlock: in every reachable state with unfinished agents some agent can move (re-entrant calls included)", not deadlocked)


CHECK = C14()
