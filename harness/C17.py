"""C17 - trimming an image canvas equals cropping what the full canvas shows."""
from __future__ import annotations

import z3

from sx import core, tstr
from sx.core import SymBool, sym_and, term
from sx.driver import Check
from sx.term import BLANK, LOWER, UPPER, Term

from . import common_render as cr
from .C02 import SymPixel


class C17(Check):
    id = "C17"
    level = "other"
    functions = [
        "term_image.widget._urwid:UrwidImageCanvas.__init__",
        "term_image.widget._urwid:UrwidImageCanvas.content",
        "term_image.widget._urwid:UrwidImageCanvas._ti_calc_trim",
        "term_image.widget._urwid:UrwidImage.render",
        "term_image.widget._urwid:UrwidImage.rows",
        "term_image.image.block:BlockImage._render_image",
        "term_image.image.common:BaseImage._format_render",
    ]
    explanation = (
        "(1) UrwidImageCanvas._ti_calc_trim runs on unbounded z3 integers: conservation new_pad1 + visible + new_pad2 = size - trims "
        "and all parts >= 0 are unsat queries.  (2) The real canvas is built from the real split-cell block render (symbolic pixel "
        "colours / alpha classes) and the real _format_render padding; content(trim_left, trim_top, cols, rows) runs for every "
        "sub-rectangle (solver-forked selectors).  Every yielded row is interpreted by the terminal model with a symbolic probe column: "
        "it must occupy exactly `cols` columns and show cell-for-cell the same upper/lower half colours as the untrimmed canvas at the shifted "
        "position, with text attributes reset at the row end.  (3) graphics canvases: vertical trimming selects exactly the matching "
        "lines, horizontal trimming yields blanks.  (4) UrwidImage.rows(size) equals the height of render(size) for symbolic widths, "
        "source sizes and cell ratios (relational query over the shared float model)."
    )
    assumptions = [
        "terminal model sx/term.py; NUL bytes are ignored by the terminal (urwid strips/uses them as markers)",
        "canvas geometry enumerated: image 1-3 cells wide, 1-2 lines, padding 0-2 cells per side; pixel colours and alpha classes symbolic",
        "urwid's own compositing of the yielded rows is outside the claim",
        "floats in (4) modelled as reals with per-operation relative error 2^-53",
    ]
    bounds = {
        "quick": {"images": [[1, 1], [2, 1], [1, 2]], "pads": [[0, 0], [1, 2], [2, 0]], "modes": ["RGB", "RGBA"]},
        "thorough": {"images": [[1, 1], [2, 1], [3, 1], [2, 2], [1, 2], [3, 2]], "pads": [[0, 0], [1, 2], [2, 0], [0, 1], [2, 2]], "modes": ["RGB", "RGBA"]},
    }
    max_paths = 200000
    relaxed_floats = True

    def budget(self, tier):
        return (280, 10000) if tier == "quick" else (3300, 60000)

    def shapes(self, tier):
        b = self.bounds[tier]
        out = [{"part": "calc_trim"}, {"part": "rows", "upscale": True}, {"part": "rows", "upscale": False}]
        for w, h in b["images"]:
            for hp in b["pads"]:
                for vp in ([0, 0], [1, 1]) if tier == "quick" else b["pads"][:4]:
                    for mode in b["modes"]:
                        if mode == "RGBA" and w * h > 2 and tier == "quick":
                            continue
                        out.append({"part": "text", "w": w, "h": h, "hpad": hp, "vpad": vp, "mode": mode})
        for h in (1, 2, 3):
            out.append({"part": "graphics", "h": h})
        return out

    def setup(self, shape, concrete):
        import urwid
        from PIL import Image

        import term_image.widget._urwid as U
        from term_image.image import BlockImage, KittyImage, block, common, kitty

        self.U, self.urwid = U, urwid
        self.mods = dict(common=common, block=block, kitty=kitty)
        KittyImage._supported = True
        self.BlockImage, self.KittyImage, self.PIL = BlockImage, KittyImage, Image
        self.img = BlockImage(Image.new("RGB", (1, 1)), width=1, height=1)

    # ------------------------------------------------------------------ (1)
    def calc_trim(self, eng):
        f = self.U.UrwidImageCanvas._ti_calc_trim
        image, p1, p2 = eng.int("image_size", 1), eng.int("pad1", 0), eng.int("pad2", 0)
        t1, t2 = eng.int("trim1", 0), eng.int("trim2", 0)
        size = p1 + image + p2
        eng.assume(t1 + t2 < size)
        n1, ti1, ti2, n2 = f(size, image, t1, p1, t2, p2)
        eng.reachable()
        eng.claim("calc_trim: all parts are non-negative and the image trims do not exceed the image", sym_and(n1 >= 0, n2 >= 0, ti1 >= 0, ti2 >= 0, ti1 <= image, ti2 <= image))
        vis = core.sym_if(image - ti1 - ti2 > 0, image - ti1 - ti2, 0)
        eng.claim("calc_trim: new paddings + visible image = visible canvas", n1 + vis + n2 == size - t1 - t2)
        eng.claim("calc_trim: the visible part starts where the request says", sym_and(n1 == core.sym_if(p1 - t1 > 0, p1 - t1, 0) - core.sym_if(t2 - (size - p1) > 0, t2 - (size - p1), 0)))
        eng.observe("parts", (n1, ti1, ti2, n2))

    # ------------------------------------------------------------------ (4)
    def rows_vs_render(self, eng, shape):
        common, U = self.mods["common"], self.U
        B = 1 << 12
        ow, oh = eng.int("ow", 1, B), eng.int("oh", 1, B)
        maxcol = eng.int("maxcol", 1, B)
        tc, tl = eng.int("tcols", 1, B), eng.int("tlines", 1, B)
        cratio = eng.real("cell_ratio", z3.RealVal(1) / 32, 8)
        common.get_terminal_size = lambda: cr.TS((tc, tl))
        common.get_cell_ratio = lambda: cratio
        img = self.BlockImage(self.PIL.new("RGB", (1, 1)), width=1, height=1)
        img._original_size = (ow, oh)
        type(img)._render_image = lambda self_, im, alpha, **kw: "x"
        type(img)._format_render = lambda self_, render, *a: render
        w = U.UrwidImage(img, upscale=shape["upscale"])
        n = w.rows((maxcol,))
        canv = type(w).render.original_fn(w, (maxcol,))  # the widget's own render(), without urwid's canvas cache
        eng.reachable()
        eng.claim("flow widget: rows() equals the number of rows render() produces", n == canv.rows())
        eng.claim("flow widget: the canvas is as wide as requested", canv.cols() == maxcol)
        eng.observe("rows", n)

    # ------------------------------------------------------------------ (3)
    def graphics(self, eng, shape):
        U = self.U
        h = shape["h"]
        cols = eng.int("cols", 1, 1 << 16)
        img = self.KittyImage(self.PIL.new("RGB", (1, 1)), width=1, height=1)
        lines = [tstr.TStr([tstr.Lit(f"L{k}:"), tstr.Dec(term(cols))]) for k in range(h)] if eng.concrete is None else [f"L{k}:{cols}" for k in range(h)]
        render = tstr.sx_join("\n", lines) if eng.concrete is None else "\n".join(lines)
        w = U.UrwidImage(img)
        self.mods["common"].get_terminal_name_version = lambda: ("kitty", "0.30")
        U.get_terminal_name_version = lambda: ("kitty", "0.30")
        canv = U.UrwidImageCanvas(render, (cols, h), (cols, h))
        canv.finalize(w, (cols, h), False)
        tt = eng.choice("trim_top", h)
        rows = 1 + eng.choice("rows", h - tt)
        tl = eng.int("trim_left", 0)
        vc = eng.int("visible_cols", 1)
        eng.assume(tl + vc <= cols)
        out = list(canv.content(tl, tt, vc, rows))
        eng.reachable()
        eng.claim("graphics canvas: exactly `rows` rows", len(out) == rows)
        trimmed = bool(core.sym_or(tl > 0, tl + vc < cols))
        for k, row in enumerate(out):
            data = tstr.sx_join(b"", [seg[2] for seg in row]) if eng.concrete is None else b"".join(seg[2] for seg in row)
            if trimmed:
                ok = isinstance(data, (tstr.TStr, bytes))
                if isinstance(data, tstr.TStr):
                    spaces = data.count(" ")
                    eng.claim(f"graphics canvas row {k}: horizontal trimming yields exactly `cols` blank cells", sym_and(spaces == vc, data.sym_len() == vc))
                else:
                    eng.claim(f"graphics canvas row {k}: horizontal trimming yields exactly `cols` blank cells", data == b" " * int(vc))
            else:
                want = lines[tt + k]
                if isinstance(data, tstr.TStr):
                    head = tstr.TStr(data.parts[: len(tstr._parts(want))], False)
                    from .iter_common import same_str

                    eng.claim(f"graphics canvas row {k}: vertical trimming selects line trim_top + {k}", same_str(head, want))
                else:
                    eng.claim(f"graphics canvas row {k}: vertical trimming selects line trim_top + {k}", data.startswith(want.encode()))

    # ------------------------------------------------------------------ (2)
    def body(self, eng, shape):
        if shape["part"] == "calc_trim":
            return self.calc_trim(eng)
        if shape["part"] == "rows":
            return self.rows_vs_render(eng, shape)
        if shape["part"] == "graphics":
            return self.graphics(eng, shape)
        U, block = self.U, self.mods["block"]
        img = self.img
        w, h = shape["w"], shape["h"]
        (pl, pr), (pt, pb) = shape["hpad"], shape["vpad"]
        cols, rows = pl + w + pr, pt + h + pb
        img._size = (w, h)
        n = w * 2 * h
        conc = eng.concrete is not None
        rgb = []
        for k in range(n):
            px = (eng.int(f"r{k}", 0, 255), eng.int(f"g{k}", 0, 255), eng.int(f"b{k}", 0, 255))
            rgb.append(px if conc else SymPixel(px))
        if shape["mode"] == "RGBA":
            a = [(0 if eng.bool(f"transparent{k}") else 255) if conc else core.SymInt(z3.If(eng.bool(f"transparent{k}").e, z3.IntVal(0), z3.IntVal(255))) for k in range(n)]
        else:
            a = [255] * n
        block.get_fg_bg_colors = lambda **kw: (None, None)
        type(img)._is_on_kitty = staticmethod(lambda: False)
        fake = cr.FakeImg(eng, shape["mode"], (w, 2 * h), "render")
        type(img)._get_render_data = lambda self_, im, alpha, **kw: (fake, rgb, a)
        # alignment that realises the requested paddings
        h_al = "<" if pl == 0 else (">" if pr == 0 else "|")
        v_al = "^" if pt == 0 else ("_" if pb == 0 else "-")
        if (h_al == "|" and pl != (pl + pr) // 2) or (v_al == "-" and pt != (pt + pb) // 2):
            raise core.Abort("padding split not realisable by an alignment")
        render = img._format_render(img._render_image(fake, 0.5 if shape["mode"] == "RGBA" else None, split_cells=True), h_al, cols, v_al, rows)
        widget = U.UrwidImage(img)
        widget._ti_h_align, widget._ti_v_align = h_al, v_al
        canv = U.UrwidImageCanvas(render, (cols, rows), (w, h))
        canv.finalize(widget, (cols, rows), False)
        # the image object is resized after the canvas was rendered (the widget was rendered at another size, or another
        # widget shares the image): a canvas is a finished rendering and must not depend on the image's current size
        img._size = (w + 3, h + 1)
        full = [self.row_bytes(eng, r) for r in canv.content()]
        eng.claim("untrimmed canvas yields one row per canvas row", len(full) == rows)
        # the requested sub-rectangle: solver-forked selectors
        tl = eng.choice("trim_left", cols)
        vc = 1 + eng.choice("cols", cols - tl)
        tt = eng.choice("trim_top", rows)
        vr = 1 + eng.choice("rows", rows - tt)
        got = [self.row_bytes(eng, r) for r in canv.content(tl, tt, vc, vr)]
        eng.reachable()
        eng.claim("exactly `rows` rows are yielded", len(got) == vr)
        px = eng.int("probe_col", 0, vc - 1)
        for k, row in enumerate(got[:vr]):
            t1 = Term(10**6, 10, 0, 0, probe=(term(px), z3.IntVal(0))).feed(row).finish()
            t0 = Term(10**6, 10, 0, 0, probe=(term(px) + tl, z3.IntVal(0))).feed(full[tt + k]).finish()
            cr.claim_events(eng, t1, f"row {k}: ")
            eng.claim(f"row {k}: occupies exactly `cols` columns", t1.col == vc)
            eng.claim(f"row {k}: text attributes are reset at the end of the row (no colour bleeds past the right edge)", t1.sgr_default())
            def halves(t):
                up = t.p_fg.sel(t.p_glyph == UPPER, t.p_bg)
                lo = t.p_fg.sel(t.p_glyph == LOWER, t.p_bg)
                return up, lo

            (u1, l1), (u0, l0) = halves(t1), halves(t0)
            blockish = lambda t: z3.Or(t.p_glyph == BLANK, t.p_glyph == UPPER, t.p_glyph == LOWER)  # noqa: E731
            same = z3.And(t1.p_written, t0.p_written, blockish(t1), blockish(t0), u1.eq(u0), l1.eq(l0))
            eng.claim(f"row {k}: every cell shows the same upper/lower half colours as the untrimmed canvas at (trim_left + x, trim_top + {k})", same)
        eng.observe("rows", len(got))

    def row_bytes(self, eng, row):
        segs = [seg[2] for seg in row]
        if eng.concrete is not None:
            return b"".join(segs).decode()
        return tstr.sx_join(b"", segs).decode()


CHECK = C17()
