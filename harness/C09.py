"""C09 - frame caching is invisible except for speed."""
from __future__ import annotations

import z3

from sx import core
from sx.core import sym_and, sym_not, sym_or, term
from sx.driver import Check

from . import iter_common as ic

OPS = ["next", "seek_start", "seek_current", "set_frame_duration", "set_render_args", "set_render_size", "set_padding"]


class C09(Check):
    id = "C09"
    level = "model_checking"
    functions = [
        "term_image.render._iterator:RenderIterator._iterate",
        "term_image.render._iterator:RenderIterator._init",
        "term_image.render._iterator:RenderIterator.__next__",
        "term_image.render._iterator:RenderIterator.seek",
        "term_image.render._iterator:RenderIterator.set_frame_duration",
        "term_image.render._iterator:RenderIterator.set_render_args",
        "term_image.render._iterator:RenderIterator.set_render_size",
        "term_image.render._iterator:RenderIterator.set_padding",
        "term_image.image.common:ImageIterator._animate",
    ]
    explanation = (
        "Relational harness: two real RenderIterators (caching on / off) over two instances of an instrumented renderable "
        "receive the same symbolic operation history (selector-forked operations, symbolic offsets, sizes, durations incl. "
        "DYNAMIC, render-argument values, padding dimensions).  After every next() the two frames (number, duration, size, "
        "output term) must be equal and the same exceptions must be raised; on the cached side no frame may be rendered twice "
        "within one 'epoch' of unchanged settings (render log of the test double, compared as z3 terms).  The image iterator's "
        "two-phase cache (ImageIterator._animate) is run the same way with _render_image as a recording stub."
    )
    assumptions = [
        "frame counts 2 and 3 (the cache is a list of that length); cache argument in {True, n, n+1} vs. False / n-1; loops in {2, -1}",
        "test renderable output depends on frame number, render-argument value and duration mode",
        "ImageIterator: rendered sizes compared through Python's tuple hash, modelled as an injective uninterpreted function",
    ]
    bounds = {"quick": {"steps": 3}, "thorough": {"steps": 5}}
    max_paths = 60000

    def budget(self, tier):
        return (240, 10000) if tier == "quick" else (3000, 60000)

    def shapes(self, tier):
        out = []
        k = self.bounds[tier]["steps"]
        for n in (2, 3):
            for loops in (2, -1):
                for cache in ("True", "n", "n+1"):
                    if tier == "quick" and cache == "n+1" and n == 3:
                        continue
                    for first in range(len(OPS)):
                        out.append({"part": "render_iterator", "n": n, "loops": loops, "cache": cache, "steps": k, "first": first})
            out.append({"part": "cache_decision", "n": n})
        for n in (2, 3):
            for cached in (True, False):
                out.append({"part": "image_iterator", "n": n, "steps": k + 2, "cached": cached})
        # histories that start after a complete first pass (cache filled): the free steps then suffice for size
        # histories A -> B -> A over one cached frame
        out.append({"part": "image_iterator", "n": 2, "steps": k + 2, "cached": True, "warm": 2})
        # the image's size setting is dynamic (the default): "resize" is then a change of the environment (terminal size /
        # cell ratio) that changes the computed size while the setting stays the same enum member
        out.append({"part": "image_iterator", "n": 2, "steps": k + 2, "cached": True, "dynamic": True})
        out.append({"part": "image_iterator", "n": 2, "steps": k + 1, "cached": True, "warm": 2, "dynamic": True})
        if tier != "quick":
            out.append({"part": "image_iterator", "n": 3, "steps": k + 2, "cached": True, "warm": 3})
        return out

    def setup(self, shape, concrete):
        ic.setup_classes(self)
        if shape["part"] == "image_iterator":
            from PIL import Image

            from term_image.image import BlockImage, common

            self.common = common
            self.BlockImage = BlockImage
            self.PILImage = Image

    def body(self, eng, shape):
        if shape["part"] == "image_iterator":
            return self.image_iterator(eng, shape)
        if shape["part"] == "cache_decision":
            return self.cache_decision(eng, shape)
        K = self.K
        R, Seek, FD = K["R"], K["Seek"], K["FrameDuration"]
        G, P = K["geometry"], K["padding"]
        n = shape["n"]
        cache = {"True": True, "n": n, "n+1": n + 1}[shape["cache"]]
        w0, h0 = eng.int("size_w", 1), eng.int("size_h", 1)
        size0 = G._Size(w0, h0)
        dyn0 = bool(eng.bool("dynamic0"))
        dur0 = FD.DYNAMIC if dyn0 else eng.int("duration0", 1)
        tsize = ic.TS((eng.int("term_cols", 1), eng.int("term_lines", 1)))
        K["IT"].get_terminal_size = lambda: tsize
        K["RM"].get_terminal_size = lambda: tsize
        r1, r2 = R(n, dur0, size0), R(n, dur0, size0)
        R.current = r1
        it1 = K["RenderIterator"](r1, None, P.ExactPadding(), shape["loops"], cache)
        it2 = K["RenderIterator"](r2, None, P.ExactPadding(), shape["loops"], False)
        eng.claim("caching is on for the cached side, off for the other", it1._cached is True and it2._cached is False)
        epoch = [0]
        epochs = []  # epoch of each render of the cached side

        def both(tag, f):
            res = []
            for it in (it1, it2):
                try:
                    res.append(("ok", f(it)))
                except StopIteration:
                    res.append(("stop", None))
                except Exception as e:  # noqa: BLE001
                    res.append((type(e).__name__, None))
            eng.claim(f"{tag}: same outcome kind with and without cache", res[0][0] == res[1][0])
            return res

        def do_next(tag):
            before = len(r1.log)
            res = both(tag, lambda it: next(it))
            epochs.extend([epoch[0]] * (len(r1.log) - before))
            if res[0][0] == "ok" and res[1][0] == "ok":
                a, b = res[0][1], res[1][1]
                eng.claim(f"{tag}: cached frame identical to the uncached one",
                          sym_and(a.number == b.number, a.duration == b.duration, a.render_size[0] == b.render_size[0], a.render_size[1] == b.render_size[1],
                                  core.SymBool(ic.same_str(a.render_output, b.render_output))))

        for i in range(shape["steps"]):
            op = shape["first"] if i == 0 else eng.choice(f"op{i}", len(OPS))
            name = OPS[op]
            tag = f"step {i} {name}"
            eng.step(name)
            if name == "next":
                do_next(tag)
            elif name in ("seek_start", "seek_current"):
                off = eng.int(f"offset{i}")
                wh = Seek.START if name == "seek_start" else Seek.CURRENT
                both(tag, lambda it: it.seek(off, wh))
            elif name == "set_frame_duration":
                d = FD.DYNAMIC if bool(eng.bool(f"dynamic{i}")) else eng.int(f"duration{i}", 1)
                both(tag, lambda it: it.set_frame_duration(d))
                epoch[0] += 1
            elif name == "set_render_args":
                a = K["RenderArgs"](R, K["RArgs"](eng.int(f"foo{i}")))
                both(tag, lambda it: it.set_render_args(a))
                epoch[0] += 1
            elif name == "set_render_size":
                s = G._Size(eng.int(f"w{i}", 1), eng.int(f"h{i}", 1))
                both(tag, lambda it: it.set_render_size(s))
                epoch[0] += 1
            elif name == "set_padding":
                p = P.ExactPadding(eng.int(f"pl{i}", 0), 0, eng.int(f"pr{i}", 0), 0)
                both(tag, lambda it: it.set_padding(p))
        for j in range(n + 1):
            do_next(f"closing next {j}")
        eng.reachable()
        # render-once: within an epoch of unchanged settings no frame is rendered twice on the cached side
        for a in range(len(r1.log)):
            for b in range(a + 1, len(r1.log)):
                if epochs[a] == epochs[b]:
                    eng.claim("cached side: a frame is not rendered a second time while the settings are unchanged", sym_not(r1.log[a][0] == r1.log[b][0]))
        eng.observe("renders", (len(r1.log), len(r2.log)))

    def cache_decision(self, eng, shape):
        """cached iff cache is True or frame_count <= cache (an int); never for INDEFINITE; invalid values rejected"""
        K = self.K
        R, G, P, FC = K["R"], K["geometry"], K["padding"], K["FrameCount"]
        n = shape["n"]
        c = eng.int("cache")
        r = R(n, 1, G._Size(1, 1))
        R.current = r
        try:
            it = K["RenderIterator"](r, None, P.ExactPadding(), 2, c)
            got = it._cached
            ok = True
        except ValueError:
            ok = False
        eng.reachable()
        if ok:
            eng.claim("integer cache argument: accepted only when positive, caching on iff frame_count <= cache", sym_and(c > 0, core.SymBool(core._boolterm(got) == (n <= term(c)))))
        else:
            eng.claim("integer cache argument: rejected exactly when non-positive", c <= 0)
        ri = R(FC.INDEFINITE, 1, G._Size(1, 1))
        R.current = ri
        eng.claim("INDEFINITE sources are never cached", K["RenderIterator"](ri, None, P.ExactPadding(), 2, True)._cached is False)
        # draw(): the cache setting handed to the iterator is the caller's, except that a single loop is never cached
        loops = eng.int("draw_loops")
        eng.assume(loops != 0)
        cache_arg = True if bool(eng.bool("draw_cache_is_true")) else eng.int("draw_cache", 1)
        RI = K["RenderIterator"]
        orig = RI.__dict__["_from_render_data_"]
        rec = []

        class Stop(Exception):
            pass

        def fake(cls, renderable, render_data, render_args, padding, loops_, cache_, **kw):
            rec.append(cache_)
            raise Stop

        RI._from_render_data_ = classmethod(fake)
        r2 = R(n, 1, G._Size(1, 1))
        R.current = r2
        data = r2._get_render_data_(iteration=True)
        try:
            try:
                r2._animate_(data, K["RenderArgs"](R), P.ExactPadding(), loops, cache_arg, None)
            except Stop:
                pass
        finally:
            RI._from_render_data_ = orig
            data.finalize()
        single = bool(loops == 1)
        eng.claim("draw(): the iterator is created once", len(rec) == 1)
        if len(rec) == 1:
            eng.claim("draw(): caching is switched off for a single loop only; any other loop count (incl. infinite) keeps the caller's cache setting",
                      (rec[0] is False) if single else (rec[0] is cache_arg))

    # ------------------------------------------------------------ ImageIterator
    def image_iterator(self, eng, shape):
        """ImageIterator._animate with/without cache against per-frame rendering: the frame yielded for position p
        with image size s must be render(p, s) (the stub's uninterpreted output)."""
        common, n = self.common, shape["n"]
        img = self.BlockImage(self.PILImage.new("RGB", (1, 1)), width=1, height=1)
        img._is_animated = True
        img._n_frames = n
        img._frame_duration = 0.1
        img._seek_position = 0
        tsize = ic.TS((eng.int("term_cols", 1), eng.int("term_lines", 1)))
        common.get_terminal_size = lambda: tsize
        calls = []

        class Src:
            mode = "RGB"

            def seek(self, k):
                pass

            def close(self):
                pass

        src = Src()
        img._source = src

        def render_image(self_, im, alpha, *, frame=False, **kw):
            pos = self_._seek_position
            if bool(pos >= n):
                raise EOFError
            w, h = self_.rendered_size
            calls.append((pos, w, h))
            from sx import tstr

            if core.ENG is None:
                return f"P{pos}w{w}h{h}"
            return tstr.TStr([tstr.Lit("P"), tstr.Dec(term(pos)), tstr.Lit("w"), tstr.Dec(term(w)), tstr.Lit("h"), tstr.Dec(term(h))])

        type(img)._render_image = render_image
        w0, h0 = eng.int("w0", 1), eng.int("h0", 1)
        img._size = (w0, h0)
        dyn = bool(shape.get("dynamic"))
        cur = [(w0, h0)]
        if dyn:
            img._size = common.Size.FIT
            type(img)._valid_size = lambda self_, *a, **k: cur[0]
        it = common.ImageIterator(img, 2, "1.1", shape["cached"])
        eng.claim("ImageIterator honours the cached argument", bool(it._cached) == shape["cached"])
        expected_pos = 0
        passes = 2
        warm = shape.get("warm", 0)
        for i in range(warm + shape["steps"]):
            op = 0 if i < warm else eng.choice(f"op{i}", 3)
            eng.step(("next", "resize", "seek")[op])
            if op == 0:
                try:
                    fr = next(it)
                except StopIteration:
                    fr = None
                if expected_pos is not None and expected_pos >= n:
                    expected_pos = 0
                    passes -= 1
                if passes <= 0:
                    eng.claim(f"step {i}: iteration ends after the given number of passes", fr is None)
                    expected_pos = None
                    break
                eng.claim(f"step {i}: a frame is yielded while passes remain", fr is not None)
                if fr is None:
                    break
                w, h = cur[0] if dyn else img._size
                exp = render_image(img, None, None) if False else None
                from sx import tstr

                want = f"P{expected_pos}w{w}h{h}" if core.ENG is None else tstr.TStr([tstr.Lit("P"), tstr.Dec(term(expected_pos)), tstr.Lit("w"), tstr.Dec(term(w)), tstr.Lit("h"), tstr.Dec(term(h))])
                eng.claim(f"step {i}: frame = rendering of that position at the image's current size (cache invisible)", core.SymBool(ic.same_str(fr, want)))
                eng.claim(f"step {i}: image's current frame tracks the yielded frame", img.tell() == expected_pos)
                expected_pos += 1
            elif op == 1:
                nw, nh = eng.int(f"w{i}", 1), eng.int(f"h{i}", 1)
                if dyn:
                    cur[0] = (nw, nh)
                else:
                    img._size = (nw, nh)
            else:
                pos = eng.choice(f"seek{i}", n)
                try:
                    it.seek(pos)
                    expected_pos = pos
                except common.TermImageError:
                    eng.claim(f"step {i}: seek rejected only before iteration started", len(calls) == 0 and expected_pos == 0)
        eng.reachable()
        it.close()
        eng.observe("renders", len(calls))


CHECK = C09()
