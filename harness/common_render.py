"""Shared pieces of the render harnesses (C01, C02, C03, C05, C17): environment
stubs for the three render styles and the rectangle claims on the terminal model."""
from __future__ import annotations

import types

import z3

from sx import core, tstr
from sx.core import SymBool, SymInt, term
from sx.term import Term
from sx.tstr import Opq, TStr

I = z3.IntVal


class TS(tuple):
    columns = property(lambda s: s[0])
    lines = property(lambda s: s[1])


def opq(name, length, meta=None, b=True):
    return TStr([Opq(name, I(0), z3.simplify(term(length)), meta)], b)


def parts_len(parts):
    return TStr(parts, True).sym_len()


class FakeImg:
    """Stand-in for a PIL image: only what the renderers touch."""

    def __init__(self, eng, mode, size, name="img", filename=None, fmt="PNG"):
        self.eng, self.mode, self.size, self.name = eng, mode, size, name
        self.closed = False
        self.format = fmt
        if filename is not None:
            self.filename = filename
        self.saves = []

    def tobytes(self):
        w, h = self.size
        bpp = len(self.mode)
        n = term(w) * term(h) * bpp
        if self.eng.concrete is not None:
            return self.eng.registry.raw(self, int(w) * int(h) * bpp)
        return opq(f"raw:{self.name}", SymInt(z3.simplify(n)), dict(kind="raw", img=self, total=z3.simplify(n)))

    def save(self, fp, fmt=None, **kw):
        """An encoder writes some non-empty byte string of environment-chosen length."""
        n = self.eng.fresh_int("enc_len", 1, 1 << 24)
        self.saves.append((fmt, kw, n))
        if self.eng.concrete is not None:
            fp.write(self.eng.registry.blob(n, dict(kind="enc", img=self, fmt=fmt, kw=kw)))
        else:
            fp.write(opq(f"enc:{self.name}:{len(self.saves)}", n, dict(kind="enc", img=self, fmt=fmt, kw=kw, total=term(n))))

    def close(self):
        self.closed = True

    def seek(self, n):
        pass

    def __enter__(self):
        return self

    def __exit__(self, *a):
        self.close()
        return False


def b64_stub(eng):
    def standard_b64encode(data):
        if not isinstance(data, TStr):
            import base64

            return base64.standard_b64encode(data)
        n = data.sym_len().e
        ln = z3.simplify(4 * ((n + 2) / 3))
        return TStr([Opq(eng.fresh_name("b64"), I(0), ln, dict(kind="b64", src=list(data.parts), n=n, total=ln))], True)

    return standard_b64encode


def compress_stub(eng, max_len=1 << 24):
    def compress(data, level=-1):
        n = eng.fresh_int("zlen", 1, max_len)
        if not isinstance(data, TStr):
            return eng.registry.blob(n, dict(kind="zlib", src_bytes=bytes(data), level=level))
        return TStr([Opq(eng.fresh_name("zlib"), I(0), n.e, dict(kind="zlib", src=list(data.parts), level=level, total=n.e))], True)

    return compress


def screen(eng, r_width, r_height, *, fit=True, at_origin=False):
    """Symbolic terminal, start position and probe cell; returns (Term, dict of terms)."""
    W, H = eng.int("term_W", 1), eng.int("term_H", 1)
    if at_origin:
        x0 = 0
    else:
        x0 = eng.int("x0", 0)
    y0 = eng.int("y0", 0)
    px, py = eng.int("probe_x", 0), eng.int("probe_y", 0)
    eng.assume(core.sym_and(px < W, py < H, y0 < H, x0 < W))
    if fit:
        eng.assume(core.sym_and(x0 + r_width <= W, y0 + r_height <= H))
    t = Term(term(W), term(H), term(x0), term(y0), probe=(term(px), term(py)))
    return t, dict(W=term(W), H=term(H), x0=term(x0), y0=term(y0), px=term(px), py=term(py))


def rect_claims(eng, t, g, r_width, r_height, prefix="", newlines=None):
    """The C01 clauses for output already fed to terminal ``t``."""
    rw, rh = term(r_width), term(r_height)
    in_rect = z3.And(g["px"] >= g["x0"], g["px"] < g["x0"] + rw, g["py"] >= g["y0"], g["py"] < g["y0"] + rh)
    claim_events(eng, t, prefix)
    eng.claim(prefix + "never scrolls", z3.Not(t.scrolled))
    eng.claim(prefix + "changes only cells of the rectangle", z3.Implies(t.p_written, in_rect))
    eng.claim(prefix + "covers every cell of the rectangle", z3.Implies(in_rect, t.p_written))
    eng.claim(
        prefix + "cursor ends on the last line just past the last column (or at the right margin)",
        z3.And(t.cursor_col() == z3.If(g["x0"] + rw > g["W"] - 1, g["W"] - 1, g["x0"] + rw), t.row == g["y0"] + rh - 1),
    )
    eng.claim(prefix + "text attributes reset at the end", t.sgr_default())
    if newlines is not None:
        eng.claim(prefix + "exactly height-1 newlines", z3.BoolVal(t.newlines == newlines))


def claim_events(eng, t, prefix=""):
    """No bad event of the terminal model is possible: one combined query; the
    individual ones are issued only if the combined one is not unsat."""
    conds = [c for _, c in t.events if not z3.is_false(z3.simplify(c))]
    ok = eng.claim(prefix + "no malformed sequence / wrap / overflow event (combined)", z3.Not(z3.Or(*conds)) if conds else True)
    if ok is False or (ok is None and False):
        for name, cond in t.events:
            eng.claim(f"{prefix}no '{name}'", z3.Not(cond))


def ends_with_newline(out):
    if isinstance(out, str):
        return out.endswith("\n")
    last = out.parts[-1] if out.parts else None
    return isinstance(last, tstr.Lit) and last.t.endswith("\n")


def namespace(**kw):
    return types.SimpleNamespace(**kw)


SRC_MODES = ["RGB", "RGBA", "L", "P", "PA"]


def graphics_render(check, eng, shape, deep=False):
    """Run the real kitty / iterm2 _render_image on proxy values.

    Returns (out, r_width, r_height, ctx); ctx holds the symbolic inputs and the
    image doubles so that protocol-level claims (C03) can relate payloads to them.
    """
    img = check.img
    eng.registry = Registry()
    common, kitty, iterm2 = check.mods["common"], check.mods["kitty"], check.mods["iterm2"]
    style = shape["style"]
    rh = shape["r_height"]
    rw = eng.int("r_width", 1, 1 << 16)
    img._size = (rw, rh)
    ow, oh = eng.int("ori_w", 1, 1 << 16), eng.int("ori_h", 1, 1 << 16)
    img._original_size = (ow, oh)
    cs = tuple(shape["cell"])
    common.get_cell_size = lambda: cs
    mix = eng.bool("mix")
    level = eng.int("compress", 0, 9)
    mode = shape["mode"]  # mode of the image handed back by _get_render_data
    max_raw = 3 * 1024 * shape.get("chunks", 3) + (8 if deep else 0)
    ctx = dict(rw=rw, rh=rh, ow=ow, oh=oh, cs=cs, mix=mix, level=level, mode=mode, renders=[], strips=[], max_raw=max_raw)

    def get_render_data(self_, im, alpha, *, size=None, pixel_data=True, round_alpha=False, frame=False):
        w, h = size
        eng.assume(w * h * len(mode) <= max_raw)
        r = FakeImg(eng, mode, (w, h), "render")
        ctx["renders"].append(dict(img=r, src=im, alpha=alpha, size=(w, h), frame=frame))
        return (r, None, None)

    check.cls._get_render_data = get_render_data
    if style == "kitty":
        kitty.standard_b64encode = b64_stub(eng)
        kitty.compress = compress_stub(eng, max_raw)
        z = eng.int("z_index", -(2**31) + 1, 2**31 - 1)
        blend = eng.bool("blend")
        ctx.update(z=z, blend=blend)
        src = FakeImg(eng, mode, (ow, oh), "source", filename="/img.png")
        ctx["src"] = src
        out = img._render_image(src, None, method=shape["method"], z_index=z, mix=mix, compress=level, blend=blend)
    else:
        iterm2.standard_b64encode = b64_stub(eng)
        type(img)._TERM = shape["term"]
        readable = eng.bool("file_is_readable")
        animated = eng.bool("is_animated") if shape["method"] != "anim" else True
        img._is_animated = bool(animated)
        from_pil = bool(eng.bool("from_pil"))
        img._source_type = common.ImageSource.PIL_IMAGE if from_pil else common.ImageSource.FILE_PATH
        src_mode = SRC_MODES[eng.choice("src_mode", len(SRC_MODES))] if deep else mode
        src = FakeImg(eng, src_mode, (ow, oh), "source", filename="/img.png")
        img._source = src if from_pil else "/img.png"
        flen = eng.int("file_len", 1, 1 << 24)
        alpha_kind = eng.choice("alpha_kind", 3) if deep else 0
        alpha = [None, 0.5, "#"][alpha_kind]
        rff = eng.bool("read_from_file")
        jq = eng.int("jpeg_quality", -3, 95)
        img._read_from_file = bool(rff) if eng.concrete is None else bool(rff)
        img._jpeg_quality = jq
        ctx.update(src=src, readable=readable, animated=animated, from_pil=from_pil, flen=flen, alpha=alpha, rff=rff, jq=jq, src_mode=src_mode, opened=[])

        def fake_open(path, mode_="rb"):
            ctx["opened"].append(path)
            if eng.concrete is not None:
                import io

                return io.BytesIO(eng.registry.blob(flen, dict(kind="file", path=path), uid=70))
            return tstr.SxIO(opq("file", flen, dict(kind="file", path=path, total=term(flen))), True)

        def frombytes(m, size, data):
            f = FakeImg(eng, m, size, f"strip{len(ctx['strips'])}")
            ctx["strips"].append(dict(img=f, data=data, size=size, mode=m))
            return f

        iterm2.open = fake_open
        iterm2.os = namespace(access=lambda p, m: bool(readable), R_OK=4)
        iterm2.PIL = namespace(Image=namespace(frombytes=frombytes))
        import warnings

        with warnings.catch_warnings():
            warnings.simplefilter("ignore")
            out = img._render_image(src, alpha, method=shape["method"], mix=mix, compress=level)
    return out, rw, rh, ctx


# --------------------------------------------------------------------------------
# Concrete (replay) mode: the environment stubs hand the real code *recognisable*
# bytes; the payloads found in its output are decoded the way a terminal would
# (real base64) and turned back into provenance pieces, so that the very same
# claims are evaluated on the unmodified code.
class Registry:
    def __init__(self):
        self.blobs = {}  # uid byte -> meta
        self.raws = []  # (img, bytes)
        self.uid = 0

    def blob(self, n, meta, uid=None):
        if uid is None:
            self.uid += 1
            uid = self.uid
            if uid == 70:
                self.uid += 1
                uid = self.uid
        if uid > 120:
            raise core.EngineLimit("too many opaque objects in one replay")
        meta = dict(meta, total=I(int(n)))
        self.blobs[uid] = meta
        return bytes([uid]) * int(n)

    @staticmethod
    def pattern(n):
        return bytes(128 + ((i + i // 127) % 127) for i in range(n))

    def raw(self, img, n):
        data = self.pattern(n)
        self.raws.append((img, data))
        return data

    def reify_bytes(self, data, hint=0):
        """concrete bytes -> provenance pieces (Opq with concrete offsets)"""
        data = bytes(data)
        if not data:
            return []
        if data[0] < 128:
            out, i = [], 0
            while i < len(data):
                j = i
                while j < len(data) and data[j] == data[i]:
                    j += 1
                meta = self.blobs.get(data[i])
                if meta is None:
                    return [Opq("unknown", I(0), I(len(data)), dict(kind="unknown", total=I(-1)))]
                m = dict(meta)
                if "src_bytes" in m:
                    m["src"] = self.reify_bytes(m["src_bytes"], hint)
                total = m["total"].as_long()
                start = 0 if not out else total - (j - i)
                out.append(Opq(f"blob{data[i]}", I(start), I(j - i), m))
                i = j
            return out
        for img, raw in self.raws:
            if raw[hint : hint + len(data)] == data:
                return [Opq("raw", I(hint), I(len(data)), dict(kind="raw", img=img, total=I(len(raw))))]
        for img, raw in self.raws:
            k = raw.find(data)
            if k >= 0:
                return [Opq("raw", I(k), I(len(data)), dict(kind="raw", img=img, total=I(len(raw))))]
        return [Opq("unknown", I(0), I(len(data)), dict(kind="unknown", total=I(-1)))]

    def reify_b64_chunks(self, chunk_texts, hint=0):
        """list of base64 text chunks -> pieces of one b64 object"""
        import base64
        import binascii

        text = "".join(chunk_texts)
        try:
            data = base64.b64decode(text, validate=True)
        except (binascii.Error, ValueError):
            return [Opq("undecodable", I(0), I(len(text)), dict(kind="unknown", total=I(-1)))]
        meta = dict(kind="b64", n=I(len(data)), total=I(4 * ((len(data) + 2) // 3)), src=self.reify_bytes(data, hint))
        out, off = [], 0
        for c in chunk_texts:
            out.append(Opq("b64", I(off), I(len(c)), meta))
            off += len(c)
        return out


def literal_text(atoms):
    out = []
    for a in atoms:
        if isinstance(a, str):
            out.append(a)
        elif isinstance(a, Opq) and isinstance(a.meta, tuple) and a.meta[0] == "literal":
            out.append(a.meta[1])
        else:
            raise core.EngineLimit("non-literal payload in concrete mode")
    return "".join(out)
