"""Shared pieces of the render harnesses (C01, C02, C03, C05, C17): environment
stubs for the three render styles and the rectangle claims on the terminal model."""
from __future__ import annotations

import types

import z3

from sx import core, tstr
from sx.core import SymBool, SymInt, term
from sx.term import Term
from sx.tstr import Opq, TStr

I = z3.IntVal


class TS(tuple):
    columns = property(lambda s: s[0])
    lines = property(lambda s: s[1])


def opq(name, length, meta=None, b=True):
    return TStr([Opq(name, I(0), z3.simplify(term(length)), meta)], b)


def parts_len(parts):
    return TStr(parts, True).sym_len()


class FakeImg:
    """Stand-in for a PIL image: only what the renderers touch."""

    def __init__(self, eng, mode, size, name="img", filename=None, fmt="PNG"):
        self.eng, self.mode, self.size, self.name = eng, mode, size, name
        self.closed = False
        self.format = fmt
        if filename is not None:
            self.filename = filename
        self.saves = []

    def tobytes(self):
        w, h = self.size
        bpp = len(self.mode)
        n = term(w) * term(h) * bpp
        if self.eng.concrete is not None:
            return bytes(int(w) * int(h) * bpp)
        return opq(f"raw:{self.name}", SymInt(z3.simplify(n)), ("raw", self.name, w, h, bpp))

    def save(self, fp, fmt=None, **kw):
        """An encoder writes some non-empty byte string of environment-chosen length."""
        n = self.eng.fresh_int("enc_len", 1, 1 << 24)
        self.saves.append((fmt, kw, n))
        if self.eng.concrete is not None:
            fp.write(b"\x89" * int(n))
        else:
            fp.write(opq(f"enc:{self.name}:{len(self.saves)}", n, ("enc", self.name, fmt, self.size, self.mode)))

    def close(self):
        self.closed = True

    def seek(self, n):
        pass

    def __enter__(self):
        return self

    def __exit__(self, *a):
        self.close()
        return False


def b64_stub(eng):
    def standard_b64encode(data):
        if not isinstance(data, TStr):
            import base64

            return base64.standard_b64encode(data)
        n = data.sym_len().e
        ln = z3.simplify(4 * ((n + 2) / 3))
        return TStr([Opq(eng.fresh_name("b64"), I(0), ln, ("b64", list(data.parts), n))], True)

    return standard_b64encode


def compress_stub(eng, max_len=1 << 24):
    def compress(data, level=-1):
        n = eng.fresh_int("zlen", 1, max_len)
        if not isinstance(data, TStr):
            return b"\x78" * int(n)
        return TStr([Opq(eng.fresh_name("zlib"), I(0), n.e, ("zlib", list(data.parts), level))], True)

    return compress


def screen(eng, r_width, r_height, *, fit=True, at_origin=False):
    """Symbolic terminal, start position and probe cell; returns (Term, dict of terms)."""
    W, H = eng.int("term_W", 1), eng.int("term_H", 1)
    if at_origin:
        x0 = 0
    else:
        x0 = eng.int("x0", 0)
    y0 = eng.int("y0", 0)
    px, py = eng.int("probe_x", 0), eng.int("probe_y", 0)
    eng.assume(core.sym_and(px < W, py < H, y0 < H, x0 < W))
    if fit:
        eng.assume(core.sym_and(x0 + r_width <= W, y0 + r_height <= H))
    t = Term(term(W), term(H), term(x0), term(y0), probe=(term(px), term(py)))
    return t, dict(W=term(W), H=term(H), x0=term(x0), y0=term(y0), px=term(px), py=term(py))


def rect_claims(eng, t, g, r_width, r_height, prefix="", newlines=None):
    """The C01 clauses for output already fed to terminal ``t``."""
    rw, rh = term(r_width), term(r_height)
    in_rect = z3.And(g["px"] >= g["x0"], g["px"] < g["x0"] + rw, g["py"] >= g["y0"], g["py"] < g["y0"] + rh)
    claim_events(eng, t, prefix)
    eng.claim(prefix + "never scrolls", z3.Not(t.scrolled))
    eng.claim(prefix + "changes only cells of the rectangle", z3.Implies(t.p_written, in_rect))
    eng.claim(prefix + "covers every cell of the rectangle", z3.Implies(in_rect, t.p_written))
    eng.claim(
        prefix + "cursor ends on the last line just past the last column (or at the right margin)",
        z3.And(t.cursor_col() == z3.If(g["x0"] + rw > g["W"] - 1, g["W"] - 1, g["x0"] + rw), t.row == g["y0"] + rh - 1),
    )
    eng.claim(prefix + "text attributes reset at the end", t.sgr_default())
    if newlines is not None:
        eng.claim(prefix + "exactly height-1 newlines", z3.BoolVal(t.newlines == newlines))


def claim_events(eng, t, prefix=""):
    """No bad event of the terminal model is possible: one combined query; the
    individual ones are issued only if the combined one is not unsat."""
    conds = [c for _, c in t.events if not z3.is_false(z3.simplify(c))]
    ok = eng.claim(prefix + "no malformed sequence / wrap / overflow event (combined)", z3.Not(z3.Or(*conds)) if conds else True)
    if ok is False or (ok is None and False):
        for name, cond in t.events:
            eng.claim(f"{prefix}no '{name}'", z3.Not(cond))


def ends_with_newline(out):
    if isinstance(out, str):
        return out.endswith("\n")
    last = out.parts[-1] if out.parts else None
    return isinstance(last, tstr.Lit) and last.t.endswith("\n")


def namespace(**kw):
    return types.SimpleNamespace(**kw)
