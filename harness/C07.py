"""C07 - an interrupted draw() still restores the terminal and the image."""
from __future__ import annotations

import sys

import z3

from sx import core, tstr
from sx.core import SymBool, sym_and, sym_or, term
from sx.driver import Check

from . import draw_common as dc
from . import pty_model as pm

ESC = "\x1b"


def frame_for(style, k, w, h):
    """a frame of the given style: what matters is the kind of control strings it contains"""
    glyph = dc.GLYPHS[k]
    if style == "plain":
        return dc.box(glyph, w, h)
    if style == "block":
        line = tstr.sx_fstr(f"{ESC}[48;2;1;2;3m", (tstr.T(glyph) * w if core.ENG is not None else glyph * int(w), None, None), f"{ESC}[m")
        return tstr.sx_join("\n", [line] * h) if core.ENG is not None else "\n".join([line] * h)
    if style == "kitty":
        fill = tstr.sx_fstr(f"{ESC}[", (w, None, None), "X", f"{ESC}[", (w, None, None), "C")
        first = tstr.sx_fstr(f"{ESC}_Ga=T,f=24,t=d,s=1,v=1,z=0,C=1,c=", (w, None, None), f",r={h},m=1;AAAA{ESC}\\{ESC}_Gm=0;AAAA{ESC}\\")
        parts = [first] + [fill + "\n"] * (h - 1) + [fill]
        return tstr.sx_join("", parts) if core.ENG is not None else "".join(parts)
    if style == "iterm2":
        cr = tstr.sx_fstr(f"{ESC}[", (w, None, None), "C")
        img = tstr.sx_fstr(f"{ESC}]1337;File=size=3;width=", (w, None, None), f";height={h};preserveAspectRatio=0;inline=1:AAAA{ESC}\\")
        up = f"{ESC}[{h - 1}A" if h > 1 else ""
        parts = [cr + "\n"] * (h - 1) + [up, img]
        return tstr.sx_join("", parts) if core.ENG is not None else "".join(parts)
    raise ValueError(style)


def classify(payload):
    """frame / position / other (for locating where draw()'s own clean-up starts)"""
    def lits(parts):
        for p in parts:
            if isinstance(p, tstr.Lit):
                yield p.t
            elif isinstance(p, tstr.Rep):
                yield from lits(p.body.parts)

    s = payload if type(payload) is str else "".join(lits(tstr._parts(payload)))
    if any(g in s for g in dc.GLYPHS) or f"{ESC}_Ga=T" in s or f"{ESC}]1337" in s:
        return "frame"
    if s.startswith("\r"):
        return "position"
    return "other"


class C07(Check):
    id = "C07"
    level = "fault_enumeration"
    functions = [
        "term_image.renderable._renderable:Renderable.draw",
        "term_image.renderable._renderable:Renderable._animate_",
        "term_image.image.common:BaseImage.draw",
        "term_image.image.common:BaseImage._display_animated",
        "term_image.image.common:BaseImage._renderer",
        "term_image.image.kitty:KittyImage._handle_interrupted_draw",
        "term_image.image.iterm2:ITerm2Image._handle_interrupted_draw",
        "term_image.image.kitty:KittyImage._display_animated",
        "term_image.image.iterm2:ITerm2Image._display_animated",
    ]
    explanation = (
        "The draw() harness of C06 with a solver-owned fault: a z3 integer selects the stream operation (write / flush / sleep / frame "
        "render) issued before draw()'s own clean-up at which Ctrl-C or an exception is raised - the engine forks at every operation, "
        "so all interruption points are covered - and the interrupted write delivers a solver-chosen prefix of its data (cut at every "
        "part boundary and inside every control sequence).  Both APIs, still and animated, block / kitty / iterm2 frame kinds.  When "
        "draw() returns or raises, the delivered byte stream is interpreted by the terminal model: cursor visible, attributes reset, "
        "no control string or chunked kitty transmission left open; termios attributes equal the initial vector; render data "
        "finalized; image size and current frame unchanged; animations swallow Ctrl-C, stills propagate it."
    )
    rule = (
        "one case = one (shape, path, fault position, cut point) obligation; fault position and cut point are solver-owned; non-trivial = "
        "the path contains at least one solver-made decision or the claim needed a solver call; distinct = distinct (shape, decision prefix, claim)"
    )
    assumptions = [
        "terminal model sx/term.py (C0 controls inside a control sequence are executed, ESC aborts it; APC/OSC strings swallow output until ST)",
        "the position where draw()'s own clean-up starts is located with a fault-free dry run of the same inputs (first operation after the last frame's write / flush / reposition / sleep)",
        "frames are stand-ins containing the control-string kinds of each style (SGR text, chunked kitty transmission, iTerm2 OSC 1337)",
        "frame count 2, loops 1-2, heights 1-2; widths and terminal size symbolic",
    ]
    bounds = {"quick": {"heights": [1, 2]}, "thorough": {"heights": [1, 2, 3]}}  # thorough also varies bottom padding and loops
    max_paths = 200000

    def budget(self, tier):
        return (280, 10000) if tier == "quick" else (3000, 60000)

    def shapes(self, tier):
        out = []
        for h in self.bounds[tier]["heights"]:
            for anim in (False, True):
                deep = tier != "quick"
                out.append({"api": "new", "style": "plain", "h": h, "animated": anim, "deep": deep})
                for style in ("block", "kitty", "iterm2"):
                    for tty in (True, False):
                        out.append({"api": "old", "style": style, "h": h, "animated": anim, "tty": tty, "deep": deep})
            # a multi-frame image drawn as a still (animate=False): still-image rules apply
            for style in (("block",) if tier == "quick" else ("block", "kitty", "iterm2")):
                out.append({"api": "old", "style": style, "h": h, "animated": False, "multi_frame_still": True, "tty": True, "deep": tier != "quick"})
        return out

    def setup(self, shape, concrete):
        import term_image.render._iterator as IT
        import term_image.renderable._renderable as RM
        from PIL import Image
        from term_image import geometry, padding, utils
        from term_image.image import BlockImage, ITerm2Image, KittyImage, common
        from term_image.renderable import Frame, Renderable

        self.RM, self.IT, self.G, self.P, self.common, self.utils = RM, IT, geometry, padding, common, utils
        self.Frame, self.Renderable = Frame, Renderable
        KittyImage._supported = True
        ITerm2Image._supported = True
        self.styles = {"block": BlockImage, "kitty": KittyImage, "iterm2": ITerm2Image}
        from term_image.image import iterm2, kitty

        # the modules bind sys.stdout.write at import time; route it to whatever sys.stdout is during the run
        kitty._stdout_write = lambda s: sys.stdout.write(s)
        iterm2._stdout_write = lambda s: sys.stdout.write(s)
        self.PIL = Image

    # ------------------------------------------------------------------ one run
    def run(self, eng, shape, W, H, w, stream, pty, extra, info):
        h = shape["h"]
        n = 2 if shape["animated"] or shape.get("multi_frame_still") else 1
        if shape["api"] == "new":
            RM, G, P, Frame, Renderable = self.RM, self.G, self.P, self.Frame, self.Renderable
            tsize = dc.TS((W, H))
            RM.get_terminal_size = lambda: tsize
            self.IT.get_terminal_size = lambda: tsize
            RM.sleep = lambda s: stream.op("sleep")
            clock = [0]

            def tick():
                clock[0] += 1
                return clock[0]

            RM.perf_counter_ns = tick
            RM.termios = pty.install(self.utils)
            size = G._Size(w, h)
            datas = []

            class Box(Renderable):
                def __init__(s):
                    super().__init__(n, 1)

                def _get_render_size_(s):
                    return size

                def _get_render_data_(s, *, iteration):
                    d = super()._get_render_data_(iteration=iteration)
                    datas.append(d)
                    return d

                def _render_(s, render_data, render_args):
                    stream.op("render")
                    k = render_data[Renderable].frame_offset
                    return Frame(k, 1, size, frame_for("plain", k, w, h))

            r = Box()
            info["datas"] = datas
            info["tell0"] = 0
            info["obj"] = r
            r.draw(None, P.ExactPadding(extra["left"], 0, 0, extra["bottom"]), loops=extra["loops"], check_size=False,
                   hide_cursor=extra["hide_cursor"], echo_input=extra["echo_input"])
        else:
            common = self.common
            tsize = dc.TS((W, H))
            common.get_terminal_size = lambda: tsize
            common.time = type("time", (), {"sleep": staticmethod(lambda s: stream.op("sleep")), "time": staticmethod(lambda: 0.0)})
            cls = self.styles[shape["style"]]
            img = cls(self.PIL.new("RGB", (1, 1)), width=1, height=1)
            if shape["style"] == "kitty":
                cls._KITTY_VERSION = extra["kitty_version"]
            if shape["style"] == "iterm2":
                cls._TERM = extra["term"]
            img._size = (w, h)
            animated = n > 1
            img._is_animated = animated
            if animated:
                img._n_frames = n
                img._frame_duration = 0.1
                img._seek_position = extra["seek0"]

            class Src:
                mode = "RGB"

                def seek(s, k):
                    pass

                def close(s):
                    pass

            img._source = Src()

            def render_image(self_, im, alpha, *, frame=False, **kw):
                stream.op("render")
                k = self_._seek_position if animated else 0
                if k >= n:
                    raise EOFError
                return frame_for(shape["style"], k, w, h)

            type(img)._render_image = render_image
            if True:
                # a dynamic size setting (the default): evaluated for the draw, must be the enum member again afterwards
                img._size = common.Size.FIT
                type(img)._valid_size = lambda self_, *a, **k: (w, h)
            info["obj"] = img
            info["size0"] = img._size
            info["tell0"] = extra["seek0"] if animated else 0
            img.draw("<", extra["pad_width"], "^", h + extra["bottom"], None, animate=not shape.get("multi_frame_still"), repeat=extra["loops"], cached=False, check_size=False)
        return info

    def body(self, eng, shape):
        W, H = eng.int("term_W", 1), eng.int("term_H", 1)
        h = shape["h"]
        w = eng.int("render_w", 1)
        tty = shape.get("tty", True)
        deep = shape.get("deep", False)
        new_api = shape["api"] == "new"
        extra = dict(left=eng.int("pad_left", 0), bottom=eng.choice("pad_bottom", 2) if deep else 0, loops=(1 + eng.choice("loops", 2)) if deep else 1,
                     hide_cursor=bool(eng.bool("hide_cursor")) if new_api else True, echo_input=bool(eng.bool("echo_input")) if new_api else True,
                     kitty_version=[(0, 25, 0), (0, 30, 0)][eng.choice("kitty_version", 2)] if shape["style"] == "kitty" else None,
                     term=["iterm2", "wezterm", "konsole"][eng.choice("iterm2_term", 3)] if shape["style"] == "iterm2" else None,
                     seek0=eng.choice("initial_frame", 2) if shape["animated"] or shape.get("multi_frame_still") else 0)
        extra["pad_width"] = w + extra["left"]
        eng.assume(sym_and(extra["pad_width"] <= W, h + extra["bottom"] <= H))
        # ---- fault-free dry run: where does draw()'s own clean-up start?
        dry = dc.Stream(eng, tty)
        pty0 = pm.Pty(eng)
        old = sys.stdout
        sys.stdout = dry
        payloads = []
        orig_write = dry.write

        def rec_write(x):
            payloads.append((dry.ops, classify(x)))
            return orig_write(x)

        dry.write = rec_write
        try:
            self.run(eng, shape, W, H, w, dry, pty0, extra, {})
        finally:
            sys.stdout = old
        frame_ops = [i for i, kind in payloads if kind == "frame"]
        if not frame_ops:
            raise core.EngineLimit("dry run wrote no frame")
        boundary = frame_ops[-1] + 1
        pos_ops = {i for i, kind in payloads if kind == "position"}
        while boundary < len(dry.log) and (dry.log[boundary] in ("flush", "sleep") or boundary in pos_ops):
            boundary += 1
        # ---- the faulted run
        fault_at = eng.int("fault_at_operation", 0, boundary - 1)
        kind = eng.choice("fault_kind", 2)
        exc = [KeyboardInterrupt, dc.Interrupt][kind]
        stream = dc.Stream(eng, tty, fault_at, exc)
        pty = pm.Pty(eng)
        sys.stdout = stream
        info = {}
        outcome = "returned"
        try:
            try:
                self.run(eng, shape, W, H, w, stream, pty, extra, info)
            except KeyboardInterrupt:
                outcome = "KeyboardInterrupt"
            except dc.Interrupt:
                outcome = "Interrupt"
            except Exception as e:  # noqa: BLE001
                outcome = type(e).__name__
        finally:
            sys.stdout = old
        eng.reachable()
        eng.claim("the fault fired", stream.fired)
        if kind == 0:
            exp = "returned" if shape["animated"] else "KeyboardInterrupt"
            eng.claim("Ctrl-C: animations end silently, still images propagate KeyboardInterrupt", outcome == exp)
        else:
            eng.claim("an exception raised by a stream / render operation propagates", outcome == "Interrupt")
        t = dc.run_term(W, H, 0, 0, 0, stream.delivered).finish()
        eng.claim("no graphics-protocol command is left unterminated (the terminal is not left swallowing output)",
                  t.state not in ("string", "string_esc") and t.kitty_pending is None)
        eng.claim("the cursor is visible again", t.cursor_visible)
        if shape["api"] == "old" or shape["style"] != "plain":
            eng.claim("text attributes are reset", t.sgr_default())
        eng.claim("terminal attributes (echo etc.) exactly as before the call", pty.same_attrs(pty.attr, pty.attr0))
        if shape["api"] == "new":
            datas = info.get("datas")
            if datas is not None:
                eng.claim("render data finalized", all(d.finalized for d in datas))
        else:
            img = info.get("obj")
            if img is not None:
                eng.claim("image size setting unchanged", img._size is info["size0"] or img._size == info["size0"])
                eng.claim("image's current frame unchanged", img.tell() == info["tell0"])
        eng.observe("delivered", len(stream.delivered))


CHECK = C07()
