"""C01 - a render output occupies exactly its advertised columns x lines rectangle."""
from __future__ import annotations

import z3

from sx import core
from sx.core import term
from sx.driver import Check

from . import common_render as cr


class C01(Check):
    id = "C01"
    level = "other"
    functions = [
        "term_image.image.kitty:KittyImage._render_image",
        "term_image.image.kitty:Transmission.get_chunks",
        "term_image.image.kitty:Transmission.get_control_data",
        "term_image.image.kitty:Transmission.compress",
        "term_image.image.iterm2:ITerm2Image._render_image",
        "term_image.image.block:BlockImage._render_image",
        "term_image.image.common:GraphicsImage._get_render_size",
        "term_image.image.common:GraphicsImage._get_minimal_render_size",
        "term_image._ctlseqs:cursor_forward",
    ]
    explanation = (
        "The real _render_image of the three styles (and Transmission.get_chunks/get_control_data) run on proxy "
        "values: rendered width, terminal size, start position, z-index, compression level, mix/blend flags, "
        "original size, payload/encoder output lengths are z3 variables; rendered height, cell size, terminal "
        "identity, image mode and render method are enumerated shapes.  The output term is interpreted by the "
        "terminal model with one symbolic probe cell; 'only the rectangle', 'covers the rectangle', cursor, "
        "scroll/wrap, SGR reset, complete control sequences and newline count are unsat queries per path."
    )
    assumptions = [
        "terminal model sx/term.py (trusted): CR+LF newlines with the library's own horizontal positioning after each newline; kitty C=1 placements stay; iTerm2/WezTerm leave the cursor on the image's last row just right of it; doNotMoveCursor=1 (Konsole) leaves it unmoved",
        "payloads (zlib / PNG / JPEG / base64 output) are opaque non-empty byte strings of arbitrary length <= 2^24 without control characters",
        "the fill character and block glyphs occupy one column",
        "the image fits: x0 + width <= W and y0 + height <= H",
    ]
    bounds = {
        "quick": {"rendered_height": [1, 2, 3], "block_grids": [[1, 1, ["RGB", "RGBA"]], [2, 1, ["RGB", "RGBA"]], [1, 2, ["RGB"]], [3, 1, ["RGB"]]], "cell_sizes": [[9, 18]], "max_chunks": 3},
        "thorough": {"rendered_height": [1, 2, 3, 4, 5, 6], "block_grids": [[1, 1, ["RGB", "RGBA"]], [2, 1, ["RGB", "RGBA"]], [1, 2, ["RGB", "RGBA"]], [3, 1, ["RGB", "RGBA"]], [2, 2, ["RGB"]], [4, 1, ["RGB"]]], "cell_sizes": [[1, 2], [9, 18], [10, 7]], "max_chunks": 4},
    }
    max_paths = 6000

    def budget(self, tier):
        return (150, 20000) if tier == "quick" else (1500, 120000)

    def shapes(self, tier):
        b = self.bounds[tier]
        out = []
        for rh in b["rendered_height"]:
            for cs in b["cell_sizes"]:
                for method in ("lines", "whole"):
                    for mode in ("RGB", "RGBA"):
                        out.append({"style": "kitty", "method": method, "r_height": rh, "cell": cs, "mode": mode, "chunks": b["max_chunks"]})
                for t in ("iterm2", "konsole", "wezterm"):
                    for method in ("lines", "whole", "anim"):
                        out.append({"style": "iterm2", "method": method, "r_height": rh, "cell": cs, "term": t, "mode": "RGB"})
        for w, rh, modes in b["block_grids"]:
            for mode in modes:
                out.append({"style": "block", "r_height": rh, "width": w, "mode": mode})
        return out

    # ------------------------------------------------------------------ setup
    def setup(self, shape, concrete):
        from PIL import Image

        from term_image.image import BlockImage, ITerm2Image, KittyImage, block, common, iterm2, kitty

        self.mods = dict(common=common, kitty=kitty, iterm2=iterm2, block=block)
        KittyImage._supported = True
        ITerm2Image._supported = True
        cls = {"kitty": KittyImage, "iterm2": ITerm2Image, "block": BlockImage}[shape["style"]]
        self.cls = cls
        self.img = cls(Image.new("RGB", (1, 1)), width=1, height=1)

    def body(self, eng, shape):
        style = shape["style"]
        if style == "block":
            from .C02 import block_render

            out, g, t, w, rh = block_render(self, eng, shape)
            cr.rect_claims(eng, t, g, w, rh, newlines=rh - 1)
            eng.claim("does not end with a newline", not cr.ends_with_newline(out))
            return
        img = self.img
        common, kitty, iterm2 = self.mods["common"], self.mods["kitty"], self.mods["iterm2"]
        rh = shape["r_height"]
        rw = eng.int("r_width", 1, 1 << 16)
        img._size = (rw, rh)
        ow, oh = eng.int("ori_w", 1, 1 << 16), eng.int("ori_h", 1, 1 << 16)
        img._original_size = (ow, oh)
        cs = tuple(shape["cell"])
        common.get_cell_size = lambda: cs
        mix = eng.bool("mix")
        level = eng.int("compress", 0, 9)
        mode = shape["mode"]
        src = cr.FakeImg(eng, mode, (ow, oh), "source", filename="/img.png")
        max_raw = 3 * 1024 * shape.get("chunks", 3)

        def get_render_data(self_, im, alpha, *, size=None, pixel_data=True, round_alpha=False, frame=False):
            w, h = size
            eng.assume(w * h * len(mode) <= max_raw)
            return (cr.FakeImg(eng, mode, (w, h), "render"), None, None)

        self.cls._get_render_data = get_render_data
        if style == "kitty":
            kitty.standard_b64encode = cr.b64_stub(eng)
            kitty.compress = cr.compress_stub(eng, max_raw)
            z = eng.int("z_index", -(2**31) + 1, 2**31 - 1)
            blend = eng.bool("blend")
            out = img._render_image(src, None, method=shape["method"], z_index=z, mix=mix, compress=level, blend=blend)
        else:
            iterm2.standard_b64encode = cr.b64_stub(eng)
            type(img)._TERM = "" if shape["term"] == "iterm2" else shape["term"]
            readable = eng.bool("file_is_readable")
            animated = eng.bool("is_animated") if shape["method"] != "anim" else True
            img._is_animated = bool(animated)
            img._source_type = common.ImageSource.PIL_IMAGE if bool(eng.bool("from_pil")) else common.ImageSource.FILE_PATH
            img._source = src if img._source_type is common.ImageSource.PIL_IMAGE else "/img.png"
            flen = eng.int("file_len", 1, 1 << 24)

            def fake_open(path, mode_="rb"):
                from sx import tstr

                if eng.concrete is not None:
                    import io

                    return io.BytesIO(b"F" * int(flen))
                return tstr.SxIO(cr.opq("file", flen, ("file", path)), True)

            iterm2.open = fake_open
            iterm2.os = cr.namespace(access=lambda p, m: bool(readable), R_OK=4)
            iterm2.PIL = cr.namespace(Image=cr.namespace(frombytes=lambda m, size, data: cr.FakeImg(eng, m, size, "strip")))
            import warnings

            with warnings.catch_warnings():
                warnings.simplefilter("ignore")
                out = img._render_image(src, None, method=shape["method"], mix=mix, compress=level)
        eng.reachable()
        t, g = cr.screen(eng, rw, rh)
        t.feed(out).finish()
        cr.rect_claims(eng, t, g, rw, rh, newlines=rh - 1)
        eng.claim("does not end with a newline", not cr.ends_with_newline(out))
        n_images = len([p for p in t.placements])
        eng.observe("newlines", t.newlines)
        eng.observe("placements", n_images)


CHECK = C01()
