"""C01 - a render output occupies exactly its advertised columns x lines rectangle."""
from __future__ import annotations

import z3

from sx import core
from sx.core import term
from sx.driver import Check

from . import common_render as cr


class C01(Check):
    id = "C01"
    level = "other"
    functions = [
        "term_image.image.kitty:KittyImage._render_image",
        "term_image.image.kitty:Transmission.get_chunks",
        "term_image.image.kitty:Transmission.get_control_data",
        "term_image.image.kitty:Transmission.compress",
        "term_image.image.iterm2:ITerm2Image._render_image",
        "term_image.image.block:BlockImage._render_image",
        "term_image.image.common:GraphicsImage._get_render_size",
        "term_image.image.common:GraphicsImage._get_minimal_render_size",
        "term_image._ctlseqs:cursor_forward",
    ]
    explanation = (
        "The real _render_image of the three styles (and Transmission.get_chunks/get_control_data) run on proxy "
        "values: rendered width, terminal size, start position, z-index, compression level, mix/blend flags, "
        "original size, payload/encoder output lengths are z3 variables; rendered height, cell size, terminal "
        "identity, image mode and render method are enumerated shapes.  The output term is interpreted by the "
        "terminal model with one symbolic probe cell; 'only the rectangle', 'covers the rectangle', cursor, "
        "scroll/wrap, SGR reset, complete control sequences and newline count are unsat queries per path."
    )
    assumptions = [
        "terminal model sx/term.py (trusted): CR+LF newlines with the library's own horizontal positioning after each newline; kitty C=1 placements stay; iTerm2/WezTerm leave the cursor on the image's last row just right of it; doNotMoveCursor=1 (Konsole) leaves it unmoved",
        "payloads (zlib / PNG / JPEG / base64 output) are opaque non-empty byte strings of arbitrary length <= 2^24 without control characters",
        "the fill character and block glyphs occupy one column",
        "the image fits: x0 + width <= W and y0 + height <= H",
    ]
    bounds = {
        "quick": {"rendered_height": [1, 2, 3], "block_grids": [[1, 1, ["RGB", "RGBA"]], [2, 1, ["RGB", "RGBA"]], [1, 2, ["RGB"]], [3, 1, ["RGB"]]], "cell_sizes": [[9, 18]], "max_chunks": 3},
        "thorough": {"rendered_height": [1, 2, 3, 4, 5, 6], "block_grids": [[1, 1, ["RGB", "RGBA"]], [2, 1, ["RGB", "RGBA"]], [1, 2, ["RGB", "RGBA"]], [3, 1, ["RGB", "RGBA"]], [2, 2, ["RGB"]], [4, 1, ["RGB"]]], "cell_sizes": [[1, 2], [9, 18], [10, 7]], "max_chunks": 4},
    }
    max_paths = 6000

    def budget(self, tier):
        return (150, 20000) if tier == "quick" else (1500, 120000)

    def shapes(self, tier):
        b = self.bounds[tier]
        out = []
        for rh in b["rendered_height"]:
            for cs in b["cell_sizes"]:
                for method in ("lines", "whole"):
                    for mode in ("RGB", "RGBA"):
                        out.append({"style": "kitty", "method": method, "r_height": rh, "cell": cs, "mode": mode, "chunks": b["max_chunks"]})
                for t in ("iterm2", "konsole", "wezterm"):
                    for method in ("lines", "whole", "anim"):
                        out.append({"style": "iterm2", "method": method, "r_height": rh, "cell": cs, "term": t, "mode": "RGB"})
        for w, rh, modes in b["block_grids"]:
            for mode in modes:
                out.append({"style": "block", "r_height": rh, "width": w, "mode": mode})
        # animation frames handed out by an image iterator are render outputs too: they must have the image's rendered
        # height at the time they are yielded (delegated to the resource-model harness of C11: dynamic size, environment
        # change before the cached second pass)
        for style in ("block", "kitty", "iterm2"):
            out.append({"part": "iterator_frames", "style": style, "source": "file", "op": "iterate", "frames": 2, "all_modes": False, "repeat": 2, "cached": True, "dynamic": True})
        return out

    # ------------------------------------------------------------------ setup
    def setup(self, shape, concrete):
        if shape.get("part") == "iterator_frames":
            from .C11 import CHECK as C11C

            return C11C.setup(shape, concrete)
        from PIL import Image

        from term_image.image import BlockImage, ITerm2Image, KittyImage, block, common, iterm2, kitty

        self.mods = dict(common=common, kitty=kitty, iterm2=iterm2, block=block)
        KittyImage._supported = True
        ITerm2Image._supported = True
        cls = {"kitty": KittyImage, "iterm2": ITerm2Image, "block": BlockImage}[shape["style"]]
        self.cls = cls
        self.img = cls(Image.new("RGB", (1, 1)), width=1, height=1)

    def body(self, eng, shape):
        if shape.get("part") == "iterator_frames":
            from .C11 import CHECK as C11C

            return C11C.body(eng, shape)
        style = shape["style"]
        if style == "block":
            from .C02 import block_render

            out, g, t, w, rh = block_render(self, eng, shape)
            cr.rect_claims(eng, t, g, w, rh, newlines=rh - 1)
            eng.claim("does not end with a newline", not cr.ends_with_newline(out))
            return
        out, rw, rh, ctx = cr.graphics_render(self, eng, shape)
        eng.reachable()
        t, g = cr.screen(eng, rw, rh)
        t.feed(out).finish()
        cr.rect_claims(eng, t, g, rw, rh, newlines=rh - 1)
        eng.claim("does not end with a newline", not cr.ends_with_newline(out))
        if style == "kitty":
            # a terminal draws nothing for a command whose data it cannot decode as labelled: the cells of that
            # command's footprint would stay uncovered
            from sx.tstr import Opq

            for i, tr in enumerate(t.transmissions):
                if eng.concrete is not None:
                    pieces = eng.registry.reify_b64_chunks([cr.literal_text(pl) for _, _, pl in tr["chunks"]])
                else:
                    pieces = [a for _, _, pl in tr["chunks"] for a in pl]
                ok = bool(pieces) and all(isinstance(a, Opq) and isinstance(a.meta, dict) and a.meta.get("kind") == "b64" for a in pieces)
                inner = next((a for a in pieces[0].meta["src"] if isinstance(a, Opq)), None) if ok else None
                eng.claim(f"kitty[{i}]: the image data is base64 text of one object", inner is not None)
                if inner is not None:
                    eng.claim(f"kitty[{i}]: the terminal can decode the data as labelled (o=z exactly on compressed data), so the command's cells get covered",
                              (inner.meta.get("kind") == "zlib") == ("o" in tr["keys"]))
        n_images = len([p for p in t.placements])
        eng.observe("newlines", t.newlines)
        eng.observe("placements", n_images)


CHECK = C01()
