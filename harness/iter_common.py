"""Shared harness for the render-iterator properties (C08, C09, C10): an instrumented
test renderable, a reference model written from the RenderIterator documentation, and
a runner that applies a symbolic operation history to both."""
from __future__ import annotations

import z3

from sx import core, tstr
from sx.core import SymBool, SymInt, sym_and, sym_if, sym_not, sym_or, term

OPS = ["next", "seek_start", "seek_current", "seek_end", "set_frame_duration", "set_padding", "set_render_args", "set_render_size", "close"]
DYN_DURATION = 7  # what the test renderable reports for FrameDuration.DYNAMIC


class TS(tuple):
    columns = property(lambda s: s[0])
    lines = property(lambda s: s[1])


def same_str(a, b):
    """z3 Bool: two render outputs (str / TStr) are the same term."""
    if type(a) is str and type(b) is str:
        return z3.BoolVal(a == b)
    pa, pb = tstr._parts(a), tstr._parts(b)
    if len(pa) != len(pb):
        return z3.BoolVal(False)
    conds = []
    for x, y in zip(pa, pb):
        if type(x) is not type(y):
            return z3.BoolVal(False)
        if isinstance(x, tstr.Lit):
            if x.t != y.t:
                return z3.BoolVal(False)
        elif isinstance(x, tstr.Dec):
            conds.append(x.v == y.v)
        elif isinstance(x, tstr.Rep):
            conds.append(x.n == y.n)
            conds.append(same_str(x.body, y.body))
        else:
            return z3.BoolVal(False)
    return z3.And(*conds) if conds else z3.BoolVal(True)


def setup_classes(check):
    """Define the instrumented render classes in the freshly imported (lifted) package."""
    import term_image.render._iterator as IT
    import term_image.renderable._renderable as RM
    from term_image import geometry, padding
    from term_image.render import RenderIterator
    from term_image.renderable import ArgsNamespace, Frame, FrameCount, FrameDuration, Renderable, RenderArgs, Seek

    class R(Renderable):
        """frames carry their own number in the output; every render is logged"""

        def __init__(self, n, duration, size):
            super().__init__(n, duration)
            self._size = size
            self.log = []  # (frame_offset, whence, size, duration, foo, finalized)
            self.finalize_calls = {}
            self.data_objects = []
            self.fault_at = None  # index of the render call that fails
            self.fault_exc = None
            self.eof = None  # callable -> bool (INDEFINITE sources)

        def _get_render_size_(self):
            return self._size

        def _get_render_data_(self, *, iteration):
            rd = super()._get_render_data_(iteration=iteration)
            self.data_objects.append(rd)
            return rd

        @classmethod
        def _finalize_render_data_(cls, render_data):
            owner = cls.current
            owner.finalize_calls[id(render_data)] = owner.finalize_calls.get(id(render_data), 0) + 1
            super()._finalize_render_data_(render_data)
            if getattr(owner, "finalizer_fails", False):
                raise RuntimeError("the render class's finalizer failed")

        def _render_(self, render_data, render_args):
            d = render_data[Renderable]
            idx = len(self.log)
            self.log.append((d.frame_offset, d.seek_whence, d.size, getattr(d, "duration", None), render_args[R].foo, render_data.finalized, d.iteration))
            if self.fault_at is not None and idx == self.fault_at:
                raise self.fault_exc
            if self.eof is not None and self.eof():
                raise StopIteration
            dur = DYN_DURATION if (not self.animated or d.duration is FrameDuration.DYNAMIC) else d.duration
            return Frame(d.frame_offset, dur, d.size, base_output(d.frame_offset, render_args[R].foo, self.animated and d.duration is FrameDuration.DYNAMIC))

    class RArgs(ArgsNamespace, render_cls=R):
        foo: int = 0

    class Other(Renderable):
        def __init__(self):
            super().__init__(2, 1)

        def _get_render_size_(self):
            return geometry.Size(1, 1)

        def _render_(self, render_data, render_args):
            return Frame(0, 1, geometry.Size(1, 1), "o")

    class OtherArgs(ArgsNamespace, render_cls=Other):
        bar: int = 0

    check.K = dict(
        R=R, RArgs=RArgs, Other=Other, OtherArgs=OtherArgs, IT=IT, RM=RM, geometry=geometry, padding=padding,
        RenderIterator=RenderIterator, Frame=Frame, FrameCount=FrameCount, FrameDuration=FrameDuration,
        Renderable=Renderable, RenderArgs=RenderArgs, Seek=Seek,
    )


def base_output(number, foo, dynamic=False):
    """render output of frame `number` with render argument `foo` (and the duration mode)"""
    tag = "D" if dynamic else "S"
    if core.ENG is None:
        return f"F{number}a{foo}{tag}"
    return tstr.TStr([tstr.Lit("F"), tstr.Dec(term(number)), tstr.Lit("a"), tstr.Dec(term(foo)), tstr.Lit(tag)])


class Model:
    """Reference model of RenderIterator, written from its class/method documentation."""

    def __init__(self, K, n, loops, size, duration, padding, foo):
        self.K = K
        self.indef = n is K["FrameCount"].INDEFINITE
        self.n = n
        self.loop = 1 if self.indef else loops
        self.next = 0
        self.closed = False
        self.size, self.duration, self.padding, self.foo = size, duration, padding, foo
        # the first render of a stream starts at its beginning: (START, 0)
        self.pending = (0, K["Seek"].START)

    def op_next(self, eof=False):
        """-> None (StopIteration) or dict describing the expected frame"""
        if self.closed:
            return None
        if self.indef:
            if eof:
                self.loop = 0
                self.closed = True
                return None
            pend, self.pending = self.pending, (0, self.K["Seek"].CURRENT)
            return dict(pending=pend, size=self.size, duration=self.duration, padding=self.padding, foo=self.foo)
        if bool(self.next == self.n):  # the previous loop is complete
            if bool(self.loop > 0):
                self.loop = self.loop - 1
            if bool(self.loop == 0):
                self.closed = True
                return None
            self.next = 0
        num = self.next
        self.next = self.next + 1
        return dict(number=num, size=self.size, duration=self.duration, padding=self.padding, foo=self.foo)

    def op_seek(self, offset, whence):
        """-> exception class name or None"""
        Seek = self.K["Seek"]
        if self.closed:
            return "FinalizedIteratorError"
        if self.indef:
            if (whence is Seek.START and bool(offset < 0)) or (whence is Seek.END and bool(offset > 0)):
                return "ValueError"
            self.pending = (offset, whence)
            return None
        frame = offset if whence is Seek.START else (self.next + offset if whence is Seek.CURRENT else self.n + offset - 1)
        if not bool(sym_and(frame >= 0, frame < self.n)):
            return "ValueError"
        self.next = frame
        return None


def padded(K, padding, size, output):
    """expected (size, output) of a frame after padding (padding is absolute)"""
    ps = padding.get_padded_size(size)
    same = sym_and(ps[0] == size[0], ps[1] == size[1])
    if bool(same):
        return size, output
    return ps, padding.pad(output, size)
