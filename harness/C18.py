"""C18 - the urwid screen never leaves a ghost image behind (the library's own obligations)."""
from __future__ import annotations

import io

import z3

from sx import core, tstr
from sx.core import SymBool, SymInt, sym_and, term
from sx.driver import Check

ESC = "\x1b"


class Out:
    def __init__(self):
        self.items = []

    def write(self, s):
        self.items.append(s)
        return 0

    def flush(self):
        pass

    def text(self):
        return "".join(x if isinstance(x, str) else "<sym>" for x in self.items)

    def isatty(self):
        return False

    def fileno(self):
        return 99


class C18(Check):
    id = "C18"
    level = "other"
    functions = [
        "term_image.widget._urwid:UrwidImageScreen._ti_clear_images",
        "term_image.widget._urwid:UrwidImageScreen.draw_screen",
        "term_image.widget._urwid:UrwidImageScreen.clear_images",
        "term_image.widget._urwid:UrwidImageScreen.clear",
        "term_image.widget._urwid:UrwidImageScreen._start",
        "term_image.widget._urwid:UrwidImageScreen._stop",
        "term_image.widget._urwid:UrwidImage._ti_get_z_index",
        "term_image.widget._urwid:UrwidImage.__del__",
    ]
    explanation = (
        "(a,b) UrwidImageScreen._ti_clear_images / draw_screen run on shard lists given as INPUT: two successive layouts (previous and "
        "next screen canvas), each a solver-chosen arrangement of kitty image views, a Konsole iterm2 image view and text views with "
        "solver-chosen trims, widths, heights and row spans (shard tails included).  Claims: the set of image views the library records "
        "equals an independently computed geometric reference (grid fill); every kitty image view that is no longer at its previous "
        "position/extent has its z-index deleted, a vanished Konsole iterm2 view triggers delete-all, unchanged views are not deleted; "
        "all deletes precede the base class' screen output; the stored set becomes the next layout's.  (c) the whole redraw is bracketed "
        "by begin/end synchronized update, also when the base class raises and for non-composite canvases; images are cleared on start, "
        "stop and clear.  (d) z-index allocator: one inductive step from an arbitrary counter value (z3 integer) and free set: result "
        "within (-2^31, 2^31), distinct from every live index, sequence 1,-1,2,-2,..., exhaustion error exactly at 2^31, released "
        "indexes are reused."
    )
    assumptions = [
        "urwid's construction of shards for real widget layouts and its line cache (which the 'disguise' state defeats) are trusted: 'placements on the terminal = images of the canvas just drawn' is covered up to these two pieces",
        "layouts: <= 2 shards x <= 2 canvas views, geometry values in 1..3 (forked selectors), rows spanning into the next shard (tails) included",
        "the base class' draw_screen / clear / _start / _stop are stubs that record a marker write",
    ]
    bounds = {"quick": {"views": 2}, "thorough": {"views": 3}}
    max_paths = 400000

    def budget(self, tier):
        return (280, 10000) if tier == "quick" else (3000, 60000)

    def shapes(self, tier):
        out = [{"part": "allocator"}, {"part": "bracket"}, {"part": "lifecycle"}]
        for term_name in ("kitty", "konsole"):
            for a_kind in range(4):
                for two in (False, True):
                    out.append({"part": "redraw", "term": term_name, "prev": a_kind, "views": 2, "two": two, "full_pool": tier != "quick"})
        out.append({"part": "redraw", "term": "konsole", "prev": 4, "views": 2, "two": True, "full_pool": tier != "quick"})
        for a_kind in (1, 2):
            out.append({"part": "redraw", "term": "kitty", "prev": a_kind, "views": 2, "two": True, "full_pool": tier != "quick", "cleared": True})
        # kitty support forced by the user on a terminal where detection fails
        for a_kind in ((1, 2) if tier == "quick" else range(4)):
            out.append({"part": "redraw", "term": "kitty", "prev": a_kind, "views": 2, "two": True, "full_pool": tier != "quick", "forced_only": True})
        return out

    def setup(self, shape, concrete):
        import urwid
        from PIL import Image

        import term_image.widget._urwid as U
        from term_image import _ctlseqs as ctlseqs
        from term_image.image import BlockImage, ITerm2Image, KittyImage

        self.U, self.urwid, self.ctl = U, urwid, ctlseqs
        KittyImage._supported = True
        ITerm2Image._supported = True
        self.classes = dict(kitty=KittyImage, iterm2=ITerm2Image, block=BlockImage)
        self.PIL = Image
        self._pool_term = None  # the widget pool / screen are rebuilt for every (process, shape)

    def make_screen(self):
        U, urwid = self.U, self.urwid
        out = Out()
        screen = U.UrwidImageScreen(io.StringIO(), out)
        screen._term_output_file = out
        return screen, out

    # ------------------------------------------------------------ (d) allocator
    def allocator(self, eng):
        U = self.U
        W = U.UrwidImage
        n = eng.int("next_z_index")
        # reachable counter values: 1, -1, 2, -2, ..., 2^31 - 1, -(2^31 - 1), 2^31
        eng.assume(core.sym_or(sym_and(n >= 1, n <= 2**31), sym_and(n <= -1, n >= -(2**31) + 1)))
        use_free = bool(eng.bool("a_released_index_exists"))
        f = eng.int("released_index")

        def precedes(z, m):
            az, am = core.sym_if(z >= 0, z, -z), core.sym_if(m >= 0, m, -m)
            return core.sym_or(az < am, sym_and(az == am, z > 0, m < 0))

        eng.assume(sym_and(f != 0, precedes(f, n)))
        W._ti_next_z_index = n
        class Free:
            """the set of released indexes holding one symbolic element (a real set would have to hash it)"""

            def __init__(s_, items):
                s_.items = list(items)

            def __bool__(s_):
                return bool(s_.items)

            def __len__(s_):
                return len(s_.items)

            def pop(s_):
                return s_.items.pop()

            def add(s_, x):
                s_.items.append(x)

        W._ti_free_z_indexes = Free([f] if use_free else [])
        # the widget asking for an index may be of any class of a hierarchy below UrwidImage (the library calls
        # self._ti_get_z_index()); the allocator state is one, shared by all of them
        Sub = type("SubImage", (W,), {})
        pool = [W, Sub, type("SubSubImage", (Sub,), {})]
        c1 = pool[eng.choice("class_of_the_first_widget", 3)]
        c2 = pool[eng.choice("class_of_the_second_widget", 3)]
        try:
            z = c1._ti_get_z_index()
            err = False
        except U.UrwidImageError:
            z, err = None, True
        eng.reachable()
        if use_free:
            eng.claim("allocator: a released index is reused, the counter is untouched", sym_and(not err, z == f, W._ti_next_z_index == n, len(W._ti_free_z_indexes) == 0))
        else:
            eng.claim("allocator: exhaustion error exactly when the counter reached 2^31", (n == 2**31) if err else (n != 2**31))
            if not err:
                eng.claim("allocator: result is the counter value, inside the signed 32-bit range excluding its minimum", sym_and(z == n, z > -(2**31), z < 2**31))
                eng.claim("allocator: counter follows 1, -1, 2, -2, ...", W._ti_next_z_index == core.sym_if(n > 0, -n, -n + 1))
                live = eng.int("some_live_index")
                eng.assume(sym_and(live != 0, precedes(live, n)))
                eng.claim("allocator: the new index differs from every index handed out before", z != live)
                if bool(n != core.sym_if(n > 0, -n, -n + 1)) and bool(W._ti_next_z_index != 2**31):
                    try:
                        z2 = c2._ti_get_z_index()
                    except U.UrwidImageError:
                        z2 = None
                    eng.claim("allocator: two live widgets of any classes of the hierarchy get different indexes", z2 is not None and sym_and(z2 != z, z2 != live))
        # releasing on garbage collection
        W._ti_free_z_indexes = set()
        img = self.classes["kitty"](self.PIL.new("RGB", (1, 1)))
        W._ti_next_z_index = 5
        w = W(img)
        zi = w._ti_z_index
        del w
        import gc

        gc.collect()
        eng.claim("allocator: a collected widget's index becomes reusable", zi in W._ti_free_z_indexes)
        W._ti_free_z_indexes = set()
        W._ti_next_z_index = 1
        eng.observe("err", err)

    # ------------------------------------------------------------- (c) bracket
    def bracket(self, eng):
        U, urwid, ctl = self.U, self.urwid, self.ctl
        screen, out = self.make_screen()
        fail = bool(eng.bool("base_draw_screen_raises"))
        composite = bool(eng.bool("canvas_is_composite"))
        had_images = bool(eng.bool("images_were_on_screen"))

        def base_draw(self_, maxres, canvas):
            out.write("<BASE>")
            if fail:
                raise RuntimeError("base class failure")

        urwid.raw_display.Screen.draw_screen = base_draw
        urwid.raw_display.Screen.flush = lambda self_: None
        U.get_terminal_name_version = lambda: ("kitty", "0.30")
        if had_images:
            img = self.classes["kitty"](self.PIL.new("RGB", (1, 1)))
            w = U.UrwidImage(img)
            c = U.UrwidImageCanvas("x", (1, 1), (1, 1))
            c.finalize(w, (1, 1), False)
            screen._ti_image_cviews = frozenset({(c, 1, 1, 0, 0, 1, 1)})
        canv = urwid.CompositeCanvas(urwid.SolidCanvas(" ", 2, 1)) if composite else urwid.SolidCanvas(" ", 2, 1)
        try:
            screen.draw_screen((2, 1), canv)
            outcome = "ok"
        except RuntimeError:
            outcome = "base error"
        except Exception as e:  # noqa: BLE001
            outcome = type(e).__name__
        eng.reachable()
        text = out.text()
        eng.claim("redraw: only the base class' own failure propagates", outcome == ("base error" if fail else "ok"))
        eng.claim("redraw: output starts with begin-synchronized-update and ends with end-synchronized-update", text.startswith(ctl.BEGIN_SYNCED_UPDATE) and text.endswith(ctl.END_SYNCED_UPDATE))
        if had_images and outcome in ("ok", "base error"):
            cleared = ctl.KITTY_DELETE_ALL in text or f"{ESC}_Ga=d,d=Z" in text
            eng.claim("redraw: images of the previous canvas that are gone are deleted before the new content", cleared and text.index(f"{ESC}_Ga=d") < text.index("<BASE>"))
            eng.claim("redraw: the recorded image views are those of the new canvas (none)", len(screen._ti_image_cviews) == 0)
        eng.observe("len", len(out.items))

    def lifecycle(self, eng):
        U, urwid, ctl = self.U, self.urwid, self.ctl
        screen, out = self.make_screen()
        urwid.raw_display.Screen.clear = lambda self_: out.write("<CLEAR>")
        urwid.raw_display.Screen._start = lambda self_, *a, **k: out.write("<START>")
        urwid.raw_display.Screen._stop = lambda self_: out.write("<STOP>")
        # kitty graphics in use: not at all / detected on the terminal / forced by the user on a terminal where detection fails
        how = eng.choice("kitty_support", 3)
        supported = how != 0
        self.classes["kitty"]._supported = how == 1
        self.classes["kitty"].forced_support = how == 2
        try:
            screen._start()
            screen.clear()
            screen._stop()
        finally:
            self.classes["kitty"]._supported = True
            self.classes["kitty"].forced_support = False
        eng.reachable()
        text = out.text()
        d = ctl.KITTY_DELETE_ALL
        if supported:
            eng.claim("images are cleared on start (after the base start), on clear (before it) and on stop (before it)",
                      text == f"<START>{d}{d}<CLEAR>{d}<STOP>")
        else:
            eng.claim("nothing is sent when the protocol is not supported", d not in text)

    # ------------------------------------------------------------ (a,b) redraw
    def layout(self, eng, tag, pool, nviews):
        """a solver-chosen shard list; returns (shards, reference set of image views as plain tuples)"""
        views = []
        n_first = 1 + eng.choice(f"{tag}_views_in_first_shard", nviews)
        two = self._two
        rows1 = 1 + eng.choice(f"{tag}_rows_shard1", 2)
        shards, ref = [], set()
        grid_row = 1
        # first shard
        cv1, col, tails = [], 1, []
        for k in range(n_first):
            canv = pool[eng.choice(f"{tag}_canvas{k}", len(pool))]
            tl, tt = eng.choice(f"{tag}_trim_left{k}", 2), 0
            cols = 1 + eng.choice(f"{tag}_cols{k}", 2)
            rows = rows1 + (eng.choice(f"{tag}_extra_rows{k}", 2) if two else 0)
            cv1.append((tl, tt, cols, rows, None, canv))
            if canv.is_image:
                ref.add((id(canv), grid_row, col, tl, tt, cols, rows))
            if rows > rows1:
                tails.append((col, cols))
            col += cols
        shards.append((rows1, cv1))
        if two:
            grid_row += rows1
            cv2, col = [], 1
            canv = pool[eng.choice(f"{tag}_canvas_s2", len(pool))]
            tl = eng.choice(f"{tag}_trim_left_s2", 2)
            cols = 1 + eng.choice(f"{tag}_cols_s2", 2)
            # the second shard's view goes into the first column range not occupied by a tail
            for tc, tw in sorted(tails):
                if tc == col:
                    col += tw
            cv2.append((tl, 0, cols, 1, None, canv))
            if canv.is_image:
                ref.add((id(canv), grid_row, col, tl, 0, cols, 1))
            shards.append((1, cv2))
        return shards, ref

    def body(self, eng, shape):
        part = shape["part"]
        if part == "allocator":
            return self.allocator(eng)
        if part == "bracket":
            return self.bracket(eng)
        if part == "lifecycle":
            return self.lifecycle(eng)
        U, urwid, ctl = self.U, self.urwid, self.ctl
        konsole = shape["term"] == "konsole"
        if getattr(self, "_pool_term", None) != shape["term"]:
            self._pool_term = shape["term"]
            U.get_terminal_name_version = lambda: ("konsole" if konsole else "kitty", "23.0")
            screen, out = self.make_screen()
            W = U.UrwidImage
            W._ti_free_z_indexes = set()
            W._ti_next_z_index = 1
            mk = lambda cls: cls(self.PIL.new("RGB", (1, 1)))  # noqa: E731
            widgets = [W(mk(self.classes["kitty"])), W(mk(self.classes["kitty"])), W(mk(self.classes["iterm2"])), W(mk(self.classes["block"]))]
            pool = []
            for w in widgets:
                c = U.UrwidImageCanvas("x", (1, 1), (1, 1))
                c.finalize(w, (1, 1), False)
                c.is_image = isinstance(w._ti_image, self.classes["kitty"]) or (konsole and isinstance(w._ti_image, self.classes["iterm2"]))
                c.widget = w
                pool.append(c)
            text_canv = urwid.SolidCanvas(" ", 1, 1)
            text_canv.is_image = False
            pool.append(text_canv)
            urwid.raw_display.Screen.draw_screen = lambda self_, maxres, canvas: self_._term_output_file.write("<BASE>")
            urwid.raw_display.Screen.flush = lambda self_: None
            self._pool, self._screen, self._out = pool, screen, out
        pool, screen, out = self._pool, self._screen, self._out
        # (re)install the environment stubs: other shapes handled by the same process may have replaced them
        U.get_terminal_name_version = lambda: ("konsole" if konsole else "kitty", "23.0")
        urwid.raw_display.Screen.draw_screen = lambda self_, maxres, canvas: self_._term_output_file.write("<BASE>")
        urwid.raw_display.Screen.flush = lambda self_: None
        # (support detected, or only forced by the user)
        forced_only = bool(shape.get("forced_only"))
        self.classes["kitty"]._supported = not forced_only
        self.classes["kitty"].forced_support = forced_only
        screen._ti_image_cviews = frozenset()
        screen._ti_screen_canv = None
        out.items.clear()
        # previous layout: one of four fixed arrangements (kept small; the next layout is fully solver-chosen)
        prev_kinds = [
            [(1, [(0, 0, 2, 1, None, pool[0])])],
            [(1, [(0, 0, 2, 1, None, pool[0]), (1, 0, 1, 1, None, pool[2])])],
            [(2, [(0, 0, 1, 2, None, pool[1]), (0, 0, 2, 3, None, pool[0])]), (1, [(0, 0, 1, 1, None, pool[4])])],
            [(1, [(0, 0, 1, 1, None, pool[4])])],
            # three views of the iterm2 image (several of them can go stale in one redraw)
            [(1, [(0, 0, 1, 1, None, pool[2]), (0, 0, 1, 1, None, pool[2])]), (1, [(0, 0, 1, 1, None, pool[2])])],
        ]
        prev = prev_kinds[shape["prev"]]
        canvA = urwid.CompositeCanvas(urwid.SolidCanvas(" ", 1, 1))
        canvA.shards = prev
        screen._ti_screen_canv = canvA
        screen._ti_clear_images()
        prev_views = {(id(v[0]),) + tuple(v[1:]) for v in screen._ti_image_cviews}
        by_id = {id(c): c for c in pool}
        if shape.get("cleared"):
            # the application clears the screen and urwid redraws the very same (cached) canvas: the images are on the
            # terminal again and must still be known to the screen when they move later
            urwid.raw_display.Screen.clear = lambda self_: None
            screen.clear()
            screen.draw_screen((9, 9), canvA)
        out.items.clear()
        self._two = shape["two"]
        next_pool = pool if shape.get("full_pool") else [pool[0], pool[2], pool[4]]  # kitty image, iterm2 image, text
        shards, ref = self.layout(eng, "next", next_pool, shape["views"])
        canvB = urwid.CompositeCanvas(urwid.SolidCanvas(" ", 1, 1))
        canvB.shards = shards
        disguise0 = U.UrwidImageCanvas._ti_disguise_state
        screen.draw_screen((9, 9), canvB)
        eng.reachable()
        got = {(id(v[0]),) + tuple(int(x) for x in v[1:]) for v in screen._ti_image_cviews}
        eng.claim("recorded image views = geometric reference (row, column, trim, columns, rows of every kitty / konsole image view)", got == ref)
        text = out.text()
        base_at = text.index("<BASE>")
        gone = prev_views - ref
        gone_widgets = {by_id[v[0]].widget for v in gone}
        non_kitty_gone = any(not isinstance(wd._ti_image, self.classes["kitty"]) for wd in gone_widgets)
        delete_all = ctl.KITTY_DELETE_ALL in text[:base_at]
        n_all = text[:base_at].count(ctl.KITTY_DELETE_ALL)
        eng.claim("delete-all is sent at most once per redraw, and the canvas disguise advances exactly once with it (so that no row of the wiped "
                  "screen can be served from urwid's line cache, and two changes cannot cancel out)",
                  n_all <= 1 and (U.UrwidImageCanvas._ti_disguise_state - disguise0) % 3 == n_all)
        if non_kitty_gone:
            eng.claim("a vanished konsole iterm2 image triggers delete-all before the new content", delete_all)
        else:
            for wd in gone_widgets:
                cmd = ctl.KITTY_DELETE_Z_INDEX % wd._ti_z_index
                eng.claim("every kitty image no longer at its previous position/extent is deleted before the new content", (cmd in text[:base_at]) or delete_all)
            kept = {by_id[v[0]].widget for v in (prev_views & ref)} - gone_widgets
            for wd in kept:
                if isinstance(wd._ti_image, self.classes["kitty"]):
                    cmd = ctl.KITTY_DELETE_Z_INDEX % wd._ti_z_index
                    eng.claim("an image whose views are all unchanged is not deleted", cmd not in text and not delete_all)
        eng.claim("no delete command follows the new content", f"{ESC}_Ga=d" not in text[base_at:])
        eng.observe("views", len(got))


CHECK = C18()
