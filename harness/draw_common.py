"""Shared pieces of the draw() harnesses (C06, C07): a recording output stream with a
solver-owned fault index, test renderables / image doubles whose frames are glyph boxes,
and the terminal-side evaluation."""
from __future__ import annotations

import z3

from sx import core, tstr
from sx.core import SymBool, sym_and, term
from sx.term import BLANK, LOWER, OTHER, UNWRITTEN, UPPER, Term

GLYPHS = ["▀", "▄", "x", "y"]
GLYPH_KIND = [UPPER, LOWER, OTHER, OTHER]


class TS(tuple):
    columns = property(lambda s: s[0])
    lines = property(lambda s: s[1])


class Interrupt(Exception):
    """an ordinary failure injected into a stream operation"""


class Stream:
    """sys.stdout stand-in: records what reaches the terminal; operation k may fail."""

    def __init__(self, eng, tty, fault_at=None, fault_exc=KeyboardInterrupt, cut=True):
        self.eng, self.tty = eng, tty
        self.delivered = []  # pieces that reached the terminal, in order
        self.marks = []  # index into delivered at every flush
        self.ops = 0
        self.fault_at, self.fault_exc, self.cut = fault_at, fault_exc, cut
        self.fired = False
        self.log = []

    def op(self, kind, payload=None):
        k = self.ops
        self.ops += 1
        self.log.append(kind)
        if self.fault_at is not None and not self.fired and bool(self.fault_at == k):
            self.fired = True
            if kind == "write" and payload is not None and self.cut:
                self.delivered.append(self.prefix(payload))
            raise self.fault_exc()

    def prefix(self, x):
        """any prefix of the data of the interrupted write (solver-chosen cut point)"""
        parts = tstr._parts(x)
        points = []  # (part index, char offset)
        for i, p in enumerate(parts):
            points.append((i, 0))
            if isinstance(p, tstr.Lit):
                for j in range(1, len(p.t)):
                    points.append((i, j))
        if len(points) > 200:
            # long literal runs (glyph rows): cut positions thinned out to the control-sequence neighbourhoods
            keep = [pt for pt in points if pt[1] < 12 or pt[1] % 17 == 0]
            points = keep
        if not points:
            return ""
        c = self.eng.choice(f"cut_point!{self.ops}", len(points) + 1)
        if c == len(points):
            return tstr.maybe_concrete(tstr.TStr(parts)) if not isinstance(x, str) else x
        i, j = points[c]
        out = parts[:i] + ([tstr.Lit(parts[i].t[:j])] if j else [])
        r = tstr.TStr(out)
        return tstr.maybe_concrete(r) if self.eng.concrete is None else r.concrete()

    def write(self, x):
        self.op("write", x)
        self.delivered.append(x)
        return 0

    def flush(self):
        self.op("flush")
        self.marks.append(len(self.delivered))

    def isatty(self):
        return self.tty

    def fileno(self):
        return 99


def box(glyph, w, h):
    line = tstr.T(glyph) * w if core.ENG is not None else glyph * int(w)
    return tstr.sx_join("\n", [line] * h) if core.ENG is not None else "\n".join([line] * h)


def screen(eng, tall=None):
    W, H = eng.int("term_W", 1), eng.int("term_H", 1)
    y0 = eng.int("cursor_row", 0)
    eng.assume(y0 < H)
    px, py = eng.int("probe_x", 0), eng.int("probe_y", 0)
    eng.assume(px < W)
    return W, H, y0, px, py


def run_term(W, H, y0, px, py, pieces, preset_sgr=False):
    t = Term(term(W), term(H), 0, term(y0), probe=(term(px), term(py)))
    if preset_sgr:
        # text attributes left active by whatever the caller printed before
        t.feed("\x1b[38;2;9;8;7m\x1b[48;2;1;2;3m")
    for p in pieces:
        t.feed(p)
    return t
