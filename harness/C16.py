"""C16 - render-argument sets obey their precedence, compatibility and immutability laws."""
from __future__ import annotations

import z3

from sx import core
from sx.core import SymBool, sym_and, term
from sx.driver import Check

NAMES = ["R0", "R1", "R2", "S"]
PARENT = {"R0": None, "R1": "R0", "R2": "R1", "S": "R0"}


def ancestors(name):
    out = []
    while name is not None:
        out.append(name)
        name = PARENT[name]
    return out  # most derived first


class C16(Check):
    id = "C16"
    level = "other"
    functions = [
        "term_image.renderable._types:RenderArgs.__new__",
        "term_image.renderable._types:RenderArgs.__init__",
        "term_image.renderable._types:RenderArgs.__eq__",
        "term_image.renderable._types:RenderArgs.__hash__",
        "term_image.renderable._types:RenderArgs.__contains__",
        "term_image.renderable._types:RenderArgs.__getitem__",
        "term_image.renderable._types:RenderArgs.convert",
        "term_image.renderable._types:RenderArgs.update",
        "term_image.renderable._types:ArgsNamespace.__init__",
        "term_image.renderable._types:ArgsNamespace.__eq__",
        "term_image.renderable._types:ArgsNamespace.__hash__",
        "term_image.renderable._types:ArgsNamespace.__or__",
        "term_image.renderable._types:ArgsNamespace.__ror__",
        "term_image.renderable._types:ArgsNamespace.__pos__",
        "term_image.renderable._types:ArgsNamespace.update",
        "term_image.renderable._types:ArgsDataNamespaceMeta.__new__",
        "term_image.renderable._types:ArgsNamespaceMeta.__new__",
        "term_image.renderable._renderable:RenderableMeta.__new__",
    ]
    explanation = (
        "A pool of render classes (chain R0<R1<R2 plus sibling S of R1) is created at run time for every subset of classes owning an "
        "argument namespace.  Target class, kind of initial set (none / base / interned default / non-default, of any class in the pool) "
        "and up to two namespaces (of any owning class) are solver-forked selectors; every field value is a z3 integer.  The real "
        "RenderArgs constructor and then up to two further operations (update in both forms, convert, |, reflected |, unary +) run on "
        "these values; acceptance / error type, the field value held for every class (last namespace, else initial set, else default), "
        "eq => equal hash (hash lifted to an uninterpreted function over structure) and 'no pre-existing object changed' (snapshot of "
        "all live objects incl. every interned default) are unsat queries per path.  Metaclass rejections are enumerated class bodies."
    )
    assumptions = [
        "class pool of 4 render classes; 1 integer field per namespace (+ one field-inheriting subclass per namespace class); at most 2 namespaces in the constructor and 2 further operations",
        "Python's hash of tuples/ints modelled as uninterpreted functions (congruence only)",
    ]
    bounds = {"quick": {"extra_ops": 1}, "thorough": {"extra_ops": 2}}
    max_paths = 200000

    def budget(self, tier):
        return (280, 10000) if tier == "quick" else (3300, 60000)

    def shapes(self, tier):
        out = []
        for owners in (0b0001, 0b0010, 0b0011, 0b0101, 0b0111, 0b1011, 0b1111, 0b1010):
            for target in range(4):
                out.append({"part": "laws", "owners": owners, "target": target, "extra": self.bounds[tier]["extra_ops"]})
        # classes created afresh on every path and no default set created up front: what is constructed first must not
        # become (or alter) the shared default set of its class
        for owners in (0b0111, 0b1111):
            for target in (1, 2, 3):
                out.append({"part": "laws", "owners": owners, "target": target, "extra": 0, "fresh": True})
        out.append({"part": "meta"})
        return out

    def setup(self, shape, concrete):
        import term_image.renderable._types as T
        from term_image import geometry
        from term_image.renderable import ArgsNamespace, Frame, Renderable, RenderArgs

        self.T, self.RenderArgs, self.Renderable, self.ArgsNamespace = T, RenderArgs, Renderable, ArgsNamespace
        self.Frame, self.geometry = Frame, geometry
        if shape["part"] != "laws":
            return
        self.make_classes(shape)

    def make_classes(self, shape):
        Renderable, ArgsNamespace, Frame, geometry = self.Renderable, self.ArgsNamespace, self.Frame, self.geometry
        owners = shape["owners"]
        cls = {}
        ns = {}

        def mk(name, base):
            def _get_render_size_(self):
                return geometry.Size(1, 1)

            def _render_(self, render_data, render_args):
                return Frame(0, 1, geometry.Size(1, 1), " ")

            # the sibling class lists a plain (non-render) mixin before its render base - legal, and the walk over the
            # MRO that collects the ancestors' namespaces must not stop at it
            bases = (type("PlainMixin", (), {}), base) if name == "S" else (base,)
            return type(name, bases, {"_get_render_size_": _get_render_size_, "_render_": _render_})

        cls2 = {}
        ns2 = {}
        for i, name in enumerate(NAMES):
            base = Renderable if PARENT[name] is None else cls2[PARENT[name]]
            cls2[name] = mk(name, base)
            if owners >> i & 1:
                ns2[name] = type(name + "Args", (ArgsNamespace,), {"__annotations__": {"x": "int"}, "x": 10 + i}, render_cls=cls2[name])
        self.cls, self.ns = cls2, ns2
        # "inheriting fields": a namespace subclass without fields of its own is associated with the same render class
        self.sub = {n: type(n + "SubArgs", (k,), {}) for n, k in ns2.items()}

    # ------------------------------------------------------------------ helpers
    def holds(self, args, name):
        """field value held by `args` for class `name` (term)"""
        return term(args[self.cls[name]].x)

    def expected_members(self, tname):
        return [n for n in ancestors(tname) if n in self.ns]

    def snapshot(self, objs):
        return [(o, {n: self.holds(o, n) for n in self.expected_members(self.name_of(o.render_cls))}) for o in objs]

    def name_of(self, c):
        return next(n for n, k in self.cls.items() if k is c)

    def unchanged(self, snap):
        conds = []
        for o, vals in snap:
            for n, v in vals.items():
                conds.append(self.holds(o, n) == v)
        return z3.And(*conds) if conds else z3.BoolVal(True)

    def body(self, eng, shape):
        if shape["part"] == "meta":
            return self.meta(eng)
        RenderArgs, T = self.RenderArgs, self.T
        fresh = bool(shape.get("fresh"))
        if fresh:
            self.make_classes(shape)
        cls, ns = self.cls, self.ns
        owners = sorted(ns)
        tname = NAMES[shape["target"]]
        tcls = cls[tname]

        class Lazy(dict):
            def __missing__(s_, n):
                s_[n] = RenderArgs(cls[n])
                return s_[n]

        defaults = Lazy() if fresh else {n: RenderArgs(cls[n]) for n in NAMES}
        live = list(defaults.values())
        ok_defaults = fresh or all(set(defaults[n]._namespaces) == {cls[m] for m in self.expected_members(n)} for n in NAMES)
        eng.claim("the default set of every class holds a namespace exactly for the classes of its hierarchy that own one", ok_defaults)
        if not ok_defaults:
            eng.reachable()
            return
        snap0 = self.snapshot(live)

        # namespaces handed to the operations are instances of the field-inheriting subclasses on half of the paths; the set
        # rebuilt for the eq/hash comparison then uses the other kind
        use_sub = [False]

        def new_ns(tag):
            """a namespace of a solver-chosen owning class with a symbolic value"""
            k = eng.choice(f"{tag}_cls", len(owners))
            v = eng.int(f"{tag}_val")
            klass = self.sub[owners[k]] if use_sub[0] else ns[owners[k]]
            return owners[k], v, klass(v)

        # --- initial set
        ik = eng.choice("init_kind", 4)
        init, init_name, init_vals = None, None, {}
        if ik == 1:
            init, init_name = T.BASE_RENDER_ARGS, None
        elif ik >= 2:
            init_name = NAMES[eng.choice("init_cls", 4)]
            if ik == 2:
                init = defaults[init_name]
            else:
                members = self.expected_members(init_name)
                if not members:
                    init = defaults[init_name]
                else:
                    vals = {n: eng.int(f"init_{n}") for n in members}
                    init = RenderArgs(cls[init_name], *[ns[n](vals[n]) for n in members])
                    init_vals = {n: term(v) for n, v in vals.items()}
                    live.append(init)
        nn = eng.choice("n_namespaces", 3)
        use_sub[0] = bool(eng.bool("namespaces_are_field_inheriting_subclasses"))
        given = [new_ns(f"ns{j}") for j in range(nn)]
        snap = self.snapshot(live)
        eng.step("construct")
        try:
            a = RenderArgs(tcls, init, *[g[2] for g in given]) if init is not None or not given else RenderArgs(tcls, *[g[2] for g in given])
            outcome = "ok"
        except T.IncompatibleRenderArgsError:
            a, outcome = None, "IncompatibleRenderArgsError"
        except T.IncompatibleArgsNamespaceError:
            a, outcome = None, "IncompatibleArgsNamespaceError"
        eng.reachable()
        t_anc = ancestors(tname)
        init_ok = init_name is None or init_name in t_anc
        ns_ok = all(g[0] in t_anc for g in given)
        exp = "ok" if init_ok and ns_ok else ("IncompatibleRenderArgsError" if not init_ok else "IncompatibleArgsNamespaceError")
        eng.claim("constructor: accepted iff every constituent belongs to the target class or an ancestor; documented error otherwise", outcome == exp)
        eng.claim("constructor: no existing object altered (incl. interned defaults)", self.unchanged(snap))
        if a is None:
            return

        def expect_values(tn, base_vals, nss):
            out = {}
            for n in self.expected_members(tn):
                v = base_vals.get(n, z3.IntVal(10 + NAMES.index(n)))
                for gname, gv, _ in nss:
                    if gname == n:
                        v = term(gv)
                out[n] = v
            return out

        base_vals = {n: v for n, v in init_vals.items()}
        exp_vals = expect_values(tname, base_vals, given)
        eng.claim("constructor: associated with the target class", a.render_cls is tcls)
        eng.claim("constructor: each class holds the last namespace given for it, else the initial set's, else the default",
                  z3.And(*[self.holds(a, n) == v for n, v in exp_vals.items()]) if exp_vals else True)
        eng.claim("constructor: holds a namespace exactly for the classes in the hierarchy that own one", set(a._namespaces) == {cls[n] for n in self.expected_members(tname)})
        # equal sets hash equal: rebuild the same set through another route
        other = ns if use_sub[0] else self.sub
        b = RenderArgs(tcls, *[other[n](SymIntOf(v)) for n, v in exp_vals.items()])
        eq = a == b
        eng.claim("two sets with equal constituents compare equal", eq is True or (isinstance(eq, bool) and eq))
        eng.claim("equal sets hash equal", term(a.__hash__()) == term(b.__hash__()) if exp_vals else hash(a) == hash(b))
        if exp_vals:
            n0 = next(iter(exp_vals))
            eng.claim("membership test: contains a namespace equal to the one it holds", ns[n0](SymIntOf(exp_vals[n0])) in a)
        if fresh:
            dflt = RenderArgs(tcls)
            eng.claim("the shared default set of a class holds the default values whatever was constructed before it was first asked for",
                      z3.And(*[self.holds(dflt, n) == 10 + NAMES.index(n) for n in self.expected_members(tname)]) if self.expected_members(tname) else True)
        live.append(a)
        cur, cur_name, cur_vals = a, tname, exp_vals
        for i in range(shape["extra"]):
            op = eng.choice(f"op{i}", 6)
            snap = self.snapshot(live)
            opname = ["update(namespace)", "update(cls, x=v)", "convert", "namespace | args", "args-holder | namespace (reflected)", "+namespace"][op]
            eng.step(opname)
            res, res_name, res_vals, exp_exc = None, None, None, None
            try:
                if op == 0:
                    gname, gv, g = new_ns(f"u{i}")
                    exp_exc = None if gname in ancestors(cur_name) else "IncompatibleArgsNamespaceError"
                    res_name, res_vals = cur_name, {**cur_vals, **({gname: term(gv)} if gname in cur_vals else {})}
                    res = cur.update(g)
                elif op == 1:
                    cn = NAMES[eng.choice(f"uc{i}", 4)]
                    v = eng.int(f"uv{i}")
                    if cn in cur_vals:
                        exp_exc = None
                    elif cn in ancestors(cur_name):
                        exp_exc = "NoArgsNamespaceError"
                    else:
                        exp_exc = "ValueError"
                    res_name, res_vals = cur_name, {**cur_vals, cn: term(v)} if cn in cur_vals else cur_vals
                    res = cur.update(cls[cn], x=v)
                elif op == 2:
                    cn = NAMES[eng.choice(f"cc{i}", 4)]
                    related = cn in ancestors(cur_name) or cur_name in ancestors(cn)
                    exp_exc = None if related else "ValueError"
                    res_name = cn
                    res_vals = {n: cur_vals.get(n, z3.IntVal(10 + NAMES.index(n))) for n in self.expected_members(cn)}
                    res = cur.convert(cls[cn])
                elif op in (3, 4):
                    gname, gv, g = new_ns(f"o{i}")
                    if gname in ancestors(cur_name):
                        res_name = cur_name
                    elif cur_name in ancestors(gname):
                        res_name = gname
                    else:
                        exp_exc = "IncompatibleRenderArgsError"
                    if res_name:
                        # the namespace operand takes precedence over the set's namespace for its class
                        res_vals = {n: cur_vals.get(n, z3.IntVal(10 + NAMES.index(n))) for n in self.expected_members(res_name)}
                        res_vals[gname] = term(gv)
                    res = (g | cur) if op == 3 else g.__ror__(cur)
                else:
                    gname, gv, g = new_ns(f"p{i}")
                    res_name = gname
                    res_vals = {n: z3.IntVal(10 + NAMES.index(n)) for n in self.expected_members(gname)}
                    res_vals[gname] = term(gv)
                    res = +g
                got_exc = None
            except Exception as e:  # noqa: BLE001
                got_exc = type(e).__name__
            eng.claim(f"{opname}: accepted / rejected with the documented error", got_exc == exp_exc)
            eng.claim(f"{opname}: no existing object altered (incl. interned defaults)", self.unchanged(snap))
            if got_exc is None and exp_exc is None:
                eng.claim(f"{opname}: result associated with the expected class", res.render_cls is cls[res_name])
                eng.claim(f"{opname}: result obeys the precedence rule", z3.And(*[self.holds(res, n) == v for n, v in res_vals.items()]) if res_vals else True)
                if not any(o is res for o in live):
                    live.append(res)
                cur, cur_name, cur_vals = res, res_name, res_vals
        eng.claim("interned defaults still hold the default values", self.unchanged(snap0))
        eng.observe("n_live", len(live))

    # ------------------------------------------------------------------- meta
    def meta(self, eng):
        T, ArgsNamespace, Renderable = self.T, self.ArgsNamespace, self.Renderable
        geometry, Frame = self.geometry, self.Frame

        def mk(name, base=None):
            return type(name, (base or Renderable,), {"_get_render_size_": lambda s: geometry.Size(1, 1), "_render_": lambda s, d, a: Frame(0, 1, geometry.Size(1, 1), " ")})

        def raises(f, *excs):
            try:
                f()
            except excs:
                return True
            except Exception:  # noqa: BLE001
                return False
            return False

        A = mk("A")
        eng.reachable()
        eng.claim("field without a default value is rejected", raises(lambda: type("N1", (ArgsNamespace,), {"__annotations__": {"x": "int"}}, render_cls=A), T.RenderArgsError))
        N = type("N", (ArgsNamespace,), {"__annotations__": {"x": "int"}, "x": 1}, render_cls=A)
        eng.claim("a render class cannot get a second namespace class", raises(lambda: type("N2", (ArgsNamespace,), {"__annotations__": {"y": "int"}, "y": 1}, render_cls=A), T.RenderArgsError))
        # a rejected definition leaves no trace: the class keeps its namespace class and goes on working with it
        eng.claim("a rejected second namespace class leaves the render class associated with the first one", A.Args is N)
        a0 = self.RenderArgs(A)
        eng.claim("after a rejected definition the class's namespace still works (construction, membership, equality)",
                  (not raises(lambda: N(x=5), Exception)) and raises(lambda: N(y=5), T.UnknownArgsFieldError) and a0[A] == N() and (+N(7))[A].x == 7)
        B = mk("B")
        eng.claim("a namespace subclass cannot be re-associated", raises(lambda: type("N3", (N,), {}, render_cls=B), T.RenderArgsDataError))
        eng.claim("a subclass cannot both inherit and define fields", raises(lambda: type("N4", (N,), {"__annotations__": {"z": "int"}, "z": 1}), T.RenderArgsDataError))
        Cc = mk("C")
        M = type("M", (ArgsNamespace,), {"__annotations__": {"y": "int"}, "y": 1}, render_cls=Cc)
        eng.claim("multiple bases are rejected", raises(lambda: type("N5", (N, M), {}), T.RenderArgsDataError, TypeError))
        eng.claim("a namespace class with fields must be associated", raises(lambda: type("N6", (ArgsNamespace,), {"__annotations__": {"x": "int"}, "x": 1}), T.RenderArgsDataError))
        eng.claim("association requires fields", raises(lambda: type("N7", (ArgsNamespace,), {}, render_cls=B), T.RenderArgsDataError))
        eng.claim("rejected definitions did not associate anything with the other classes", B.Args is None and Cc.Args is M)
        eng.claim("unknown field names are rejected by the constructor and by update()", raises(lambda: N(q=1), T.UnknownArgsFieldError) and raises(lambda: N().update(q=1), T.UnknownArgsFieldError))
        eng.claim("too many positional values are rejected", raises(lambda: N(1, 2), TypeError))
        eng.claim("fields cannot be assigned or deleted", raises(lambda: setattr(N(), "x", 2), AttributeError) and raises(lambda: delattr(N(), "x"), AttributeError))
        v = eng.int("v")
        n1 = N(v)
        n2 = n1.update(x=v + 1)
        eng.claim("update() returns a new namespace and leaves the original untouched", sym_and(n1.x == v, n2.x == v + 1))
        eng.claim("an unassociated namespace class cannot be instantiated", raises(lambda: ArgsNamespace(), T.UnassociatedNamespaceError))


def SymIntOf(t):
    t = z3.simplify(t)
    return int(t.as_long()) if z3.is_int_value(t) else core.SymInt(t)


CHECK = C16()
