"""C20 - style settings resolve instance -> nearest class -> default, and unset restores."""
from __future__ import annotations

import z3

from sx import core
from sx.core import SymBool, sym_and, term
from sx.driver import Check

from . import common_render as cr

UNSET = "<unset>"


class C20(Check):
    id = "C20"
    level = "model_checking"
    functions = [
        "term_image.image.common:BaseImage.set_render_method",
        "term_image.image.common:ImageMeta.forced_support",
        "term_image.image.iterm2:ITerm2ImageMeta.jpeg_quality",
        "term_image.image.iterm2:ITerm2ImageMeta.read_from_file",
        "term_image.image.iterm2:ITerm2ImageMeta.native_anim_max_bytes",
        "term_image.utils:ClassInstanceMethod.__get__",
        "term_image.image.kitty:KittyImage._render_image",
        "term_image.image.iterm2:ITerm2Image._render_image",
    ]
    explanation = (
        "User subclass trees (chain of depth 3, fork) are created under KittyImage / ITerm2Image at run time with one instance per "
        "class.  A history of k operations is applied to the real classes/instances and to a dictionary-per-node model of 'own "
        "value, else nearest ancestor, else documented default'; target node, action (set / unset) and value kind are solver-forked "
        "selectors, integer values (JPEG quality, native-animation limit) are z3 variables whose validity range the real setters "
        "decide symbolically.  After every operation every node's effective value is read back and compared with the model; "
        "rejected operations must raise the documented error type and change nothing.  Finally one real render per node shows that "
        "the method actually used is the effective one unless overridden for that call."
    )
    assumptions = [
        "class trees: chain A<B<C and fork (B, C children of A) under KittyImage and ITerm2Image; one instance per class",
        "histories of k operations per setting (bound stated); settings are checked one at a time plus the global native-animation limit",
        "render-method-in-use is observed through the number of graphics commands in a 2-line render (LINES: 2, WHOLE/ANIM: 1)",
    ]
    bounds = {"quick": {"steps": 2}, "thorough": {"steps": 3}}
    max_paths = 200000

    def budget(self, tier):
        return (280, 10000) if tier == "quick" else (3300, 60000)

    def shapes(self, tier):
        k = self.bounds[tier]["steps"]
        out = []
        for tree in ("chain", "fork"):
            for base, settings in (("kitty", ["render_method", "forced_support"]), ("iterm2", ["render_method", "jpeg_quality", "read_from_file", "forced_support", "native_anim_max_bytes"])):
                for st in settings:
                    for first_target in range(6):
                        out.append({"tree": tree, "base": base, "setting": st, "steps": k + (1 if st != "render_method" else 0), "first_target": first_target})
        for base in ("kitty", "iterm2"):
            for ov in range(4 if base == "iterm2" else 3):  # the per-call override: each method, or none (split for parallelism)
                out.append({"tree": "chain", "base": base, "setting": "render_in_use", "override": ov})
        return out

    def setup(self, shape, concrete):
        from PIL import Image

        from term_image.image import ITerm2Image, KittyImage, block, common, iterm2, kitty

        self.mods = dict(common=common, kitty=kitty, iterm2=iterm2, block=block)
        KittyImage._supported = True
        ITerm2Image._supported = True
        self.Base = {"kitty": KittyImage, "iterm2": ITerm2Image}[shape["base"]]
        self.PIL = Image

    def make_tree(self, shape):
        Base = self.Base
        A = type("A", (Base,), {})
        # B (and what derives from it) is created through a metaclass derived from the style's own metaclass - what a
        # user who adds class-level properties has to do; A keeps the plain metaclass
        M = type("DerivedMeta", (type(Base),), {})
        B = M("B", (A,), {})
        C = type("C", (B,) if shape["tree"] == "chain" else (A,), {})
        classes = [A, B, C]
        parents = {A: None, B: A, C: B if shape["tree"] == "chain" else A}
        insts = [c(self.PIL.new("RGB", (1, 1)), width=1, height=1) for c in classes]
        return classes, parents, insts

    # model -----------------------------------------------------------------
    def effective(self, own, parents, classes, insts, node, default):
        if node >= 3:
            if own[node] is not UNSET:
                return own[node]
            node -= 3
        c = classes[node]
        while c is not None:
            v = own[classes.index(c)]
            if v is not UNSET:
                return v
            c = parents[c]
        return default

    def body(self, eng, shape):
        common = self.mods["common"]
        setting = shape["setting"]
        classes, parents, insts = self.make_tree(shape)
        if setting == "render_in_use":
            return self.render_check(eng, shape, classes, parents, insts)
        Base = self.Base
        nodes = classes + insts  # 0..2 classes, 3..5 instances
        own = [UNSET] * 6
        methods = sorted(Base._render_methods)
        default = {"render_method": Base._default_render_method, "forced_support": False, "jpeg_quality": -1, "read_from_file": True, "native_anim_max_bytes": 2 * 2**20}[setting]
        global_value = [default]

        def read(node):
            o = nodes[node]
            if setting == "render_method":
                return o._render_method
            return getattr(o, setting)

        def check_all(tag):
            for nd in range(6):
                if setting == "native_anim_max_bytes":
                    exp = global_value[0]
                elif setting == "forced_support":
                    exp = self.effective(own, parents, classes, insts, nd if nd < 3 else nd - 3, default)
                else:
                    exp = self.effective(own, parents, classes, insts, nd, default)
                got = read(nd)
                if isinstance(exp, str) or isinstance(got, str) and type(got) is str:
                    ok = type(got) is str and got.lower() == str(exp).lower() if setting == "render_method" else got == exp
                    eng.claim(f"{tag}: node {nd} sees its own value, else the nearest class's, else the default", ok)
                elif type(exp) is bool or type(got) is bool:
                    eng.claim(f"{tag}: node {nd} sees its own value, else the nearest class's, else the default", got is exp)
                else:
                    eng.claim(f"{tag}: node {nd} sees its own value, else the nearest class's, else the default", term(got) == term(exp))

        check_all("initially")
        for i in range(shape["steps"]):
            nd = shape["first_target"] if i == 0 else eng.choice(f"target{i}", 6)
            o = nodes[nd]
            is_inst = nd >= 3
            unset = bool(eng.bool(f"unset{i}"))
            eng.step(f"{'unset' if unset else 'set'} {setting} on node {nd}")
            exp_exc, newval = None, None
            if setting == "render_method":
                if unset:
                    val = None
                else:
                    vk = eng.choice(f"value{i}", len(methods) + 3)
                    val = (methods + [methods[0].upper(), "bogus", 5])[vk]
                    if val == 5:
                        exp_exc = "TypeError"
                    elif val == "bogus":
                        exp_exc = "ValueError"
                    else:
                        newval = val
                call = lambda: o.set_render_method(val)  # noqa: E731
            elif setting == "forced_support":
                if is_inst:
                    exp_exc = "AttributeError"  # read-only on instances
                    val = True
                    call = (lambda: delattr(o, "forced_support")) if unset else (lambda: setattr(o, "forced_support", val))  # noqa: E731
                elif unset:
                    # forced_support has no deleter: documented as set True/False only
                    exp_exc = "AttributeError"
                    call = lambda: delattr(o, "forced_support")  # noqa: E731
                else:
                    vk = eng.choice(f"value{i}", 3)
                    val = [True, False, 1][vk]
                    if vk == 2:
                        exp_exc = "TypeError"
                    else:
                        newval = val
                    call = lambda: setattr(o, "forced_support", val)  # noqa: E731
            elif setting == "jpeg_quality":
                if unset:
                    call = lambda: delattr(o, "jpeg_quality")  # noqa: E731
                else:
                    vk = eng.choice(f"value{i}", 2)
                    if vk == 0:
                        val = eng.int(f"quality{i}")
                        if bool(val > 95):
                            exp_exc = "ValueError"
                        else:
                            newval = val
                    else:
                        val, exp_exc = 2.5, "TypeError"
                    call = lambda: setattr(o, "jpeg_quality", val)  # noqa: E731
            elif setting == "read_from_file":
                if unset:
                    call = lambda: delattr(o, "read_from_file")  # noqa: E731
                else:
                    vk = eng.choice(f"value{i}", 3)
                    val = [True, False, 0][vk]
                    if vk == 2:
                        exp_exc = "TypeError"
                    else:
                        newval = val
                    call = lambda: setattr(o, "read_from_file", val)  # noqa: E731
            else:  # native_anim_max_bytes: one global, class-only
                if is_inst:
                    exp_exc = "AttributeError"
                    call = (lambda: delattr(o, setting)) if unset else (lambda: setattr(o, setting, 5))  # noqa: E731
                elif unset:
                    call = lambda: delattr(o, setting)  # noqa: E731
                else:
                    val = eng.int(f"bytes{i}")
                    if bool(val <= 0):
                        exp_exc = "ValueError"
                    else:
                        newval = val
                    call = lambda: setattr(o, setting, val)  # noqa: E731
            try:
                call()
                got_exc = None
            except Exception as e:  # noqa: BLE001
                got_exc = type(e).__name__
            tag = f"step {i}"
            eng.claim(f"{tag}: accepted, or rejected with the documented error type", got_exc == exp_exc)
            if exp_exc is None:
                if setting == "native_anim_max_bytes":
                    global_value[0] = default if unset else newval
                else:
                    own[nd] = UNSET if unset else newval
            check_all(tag)
        eng.reachable()
        eng.observe("own_values_set", sum(1 for v in own if v is not UNSET))
        # restore the global so that later paths start clean
        if setting == "native_anim_max_bytes":
            del classes[0].native_anim_max_bytes

    def render_check(self, eng, shape, classes, parents, insts):
        """the method actually used by a render = per-call override, else the effective one"""
        from sx.term import Term

        methods = sorted(self.Base._render_methods)
        own = [UNSET] * 6
        # a class-wide value on A and/or B and an instance value on C's instance, each optional
        for nd, o in ((0, classes[0]), (1, classes[1]), (5, insts[2])):
            k = eng.choice(f"set{nd}", len(methods) + 1)
            if k < len(methods):
                o.set_render_method(methods[k])
                own[nd] = methods[k]
        node = 5
        img = insts[2]
        ov = shape["override"]
        override = None if ov >= len(methods) else methods[ov]
        eff = override or self.effective(own, parents, classes, insts, node, self.Base._default_render_method)
        self.cls = type(img)
        self.img = img
        # the per-call override is accepted in any letter case (validated case-insensitively) and reaches the renderer as written
        spelled = override and [str.lower, str.upper, str.title][eng.choice("override_letter_case", 3)](override)
        rshape = {"style": shape["base"], "method": spelled, "r_height": 2, "cell": [1, 2], "mode": "RGB", "term": "iterm2", "chunks": 1}
        out, rw, rh, ctx = cr.graphics_render(self, eng, rshape)
        t = Term(10**6, 10**6).feed(out).finish()
        n_cmds = len(t.transmissions)
        animated_native = eff.lower() == "anim" and bool(ctx.get("animated", False))
        exp = 2 if eff.lower() == "lines" else 1
        eng.reachable()
        eng.claim("render uses the per-call method if given, else the effective one", n_cmds == exp)


CHECK = C20()
