"""C10 - render data is finalized exactly once and never used afterwards."""
from __future__ import annotations

import gc
import sys

import z3

from sx import core, tstr
from sx.core import sym_and, sym_not, sym_or, term
from sx.driver import Check

from . import iter_common as ic


class Boom(Exception):
    pass


class Sink:
    """stdout stand-in for draw(): not a tty"""

    def __init__(self):
        self.n = 0

    def write(self, s):
        self.n += 1

    def flush(self):
        pass

    def isatty(self):
        return False


class C10(Check):
    id = "C10"
    level = "model_checking"
    functions = [
        "term_image.renderable._types:RenderData.finalize",
        "term_image.renderable._types:RenderData.__del__",
        "term_image.renderable._renderable:Renderable._init_render_",
        "term_image.renderable._renderable:Renderable.draw",
        "term_image.renderable._renderable:Renderable.render",
        "term_image.renderable._renderable:Renderable.__str__",
        "term_image.renderable._renderable:Renderable._animate_",
        "term_image.render._iterator:RenderIterator.__init__",
        "term_image.render._iterator:RenderIterator.__next__",
        "term_image.render._iterator:RenderIterator.close",
        "term_image.render._iterator:RenderIterator.__del__",
        "term_image.render._iterator:RenderIterator._from_render_data_",
        "term_image.render._iterator:RenderIterator._iterate",
    ]
    explanation = (
        "The real Renderable.render/draw/__str__/_init_render_/_animate_ and RenderIterator run on an instrumented renderable "
        "that counts _finalize_render_data_ calls per RenderData object and records the `finalized` flag at every _render_.  The "
        "index of the frame render that fails is a z3 variable (so the engine forks at every render: 'for all k'), the failure "
        "kind (Exception / StopIteration from a definite source) and whether size validation fails (terminal size vs. padded size, "
        "both symbolic) are solver-chosen, and the operation applied at each step is a forked selector.  At the end of every path: "
        "every library-owned data object was finalized exactly once, caller-owned data not at all, no frame was rendered with "
        "finalized data, and a finished/closed/failed iterator stops and rejects control operations."
    )
    assumptions = [
        "histories: construct + k selector-chosen operations (next, seek, close, drop reference) + clean-up; draw()/render()/str() as single operations with a symbolic fault index",
        "CPython reference counting runs __del__ when the last reference is dropped (gc.collect() is called as well)",
        "frame counts 2..3 for animations inside draw(), loops 1..2; iterator shapes use an unbounded symbolic frame count",
    ]
    bounds = {"quick": {"steps": 3}, "thorough": {"steps": 5}}
    max_paths = 40000

    def budget(self, tier):
        return (240, 10000) if tier == "quick" else (3000, 60000)

    def shapes(self, tier):
        k = self.bounds[tier]["steps"]
        out = []
        for kind in ("iter", "from_data_owned", "from_data_kept"):
            for first in range(4):
                out.append({"kind": kind, "steps": k, "first": first})
        # cached iterators (definite frame count 2; a fifth operation invalidates the cache)
        for kind in ("iter", "from_data_owned"):
            for first in (0, 1):
                out.append({"kind": kind, "steps": k + 1, "first": first, "cache": True, "n": 2})
        out.append({"kind": "render"})
        out.append({"kind": "str"})
        out.append({"kind": "draw_still"})
        for n in (2, 3):
            for loops in (1, 2):
                for cache in (False, True):
                    out.append({"kind": "draw_anim", "n": n, "loops": loops, "cache": cache})
        out.append({"kind": "iter_init_fail"})
        for how in range(3):
            out.append({"kind": "finalizer_fails", "how": how})
        return out

    def setup(self, shape, concrete):
        ic.setup_classes(self)

    def body(self, eng, shape):
        K = self.K
        R, G, P, FC = K["R"], K["geometry"], K["padding"], K["FrameCount"]
        kind = shape["kind"]
        tw, th = eng.int("term_cols", 1), eng.int("term_lines", 1)
        tsize = ic.TS((tw, th))
        K["IT"].get_terminal_size = lambda: tsize
        K["RM"].get_terminal_size = lambda: tsize
        K["RM"].sleep = lambda s: None
        clock = [0]

        def tick():
            clock[0] += 1000
            return clock[0]

        K["RM"].perf_counter_ns = tick
        w, h = eng.int("size_w", 1), eng.int("size_h", 1)
        size = G._Size(w, h)
        fault_at = eng.int("fault_at", -1) if kind != "finalizer_fails" else -1  # -1: no fault
        fault_kind = eng.choice("fault_kind", 2) if kind != "finalizer_fails" else 0
        n = shape.get("n") or (eng.int("n_frames", 2) if kind in ("iter", "from_data_owned", "from_data_kept") else (2 if kind in ("iter_init_fail", "finalizer_fails") else 1))
        r = R(n, 1, size)
        R.current = r
        r.fault_at = fault_at
        r.fault_exc = Boom("frame render failed") if fault_kind == 0 else StopIteration()
        kept = []  # caller-owned data
        owned_by_caller_then_finalized = []

        eng.step(kind)
        if kind in ("render", "str", "draw_still"):
            old = sys.stdout
            sys.stdout = Sink()
            try:
                try:
                    if kind == "render":
                        r.render(None, P.AlignedPadding(eng.int("pad_w"), eng.int("pad_h")))
                    elif kind == "str":
                        str(r)
                    else:
                        r.draw(None, P.AlignedPadding(eng.int("pad_w"), eng.int("pad_h")), check_size=bool(eng.bool("check_size")), allow_scroll=bool(eng.bool("allow_scroll")))
                    outcome = "ok"
                except Exception as e:  # noqa: BLE001
                    outcome = type(e).__name__
            finally:
                sys.stdout = old
            eng.reachable()
            eng.claim(f"{kind}: exactly one render-data object is created", len(r.data_objects) == 1)
        elif kind == "draw_anim":
            old = sys.stdout
            sys.stdout = Sink()
            try:
                try:
                    r.draw(None, P.AlignedPadding(eng.int("pad_w"), eng.int("pad_h")), loops=shape["loops"], cache=shape["cache"])
                    outcome = "ok"
                except Exception as e:  # noqa: BLE001
                    outcome = type(e).__name__
            finally:
                sys.stdout = old
            eng.reachable()
        elif kind == "finalizer_fails":
            # the render class's own finalizer raises: the data still counts as finalized - it is never run again
            r.finalizer_fails = True
            how = shape["how"]  # finalized directly / by closing its iterator / by exhausting its iterator
            d = r._get_render_data_(iteration=how != 0)
            try:
                if how == 0:
                    d.finalize()
                elif how == 1:
                    K["RenderIterator"]._from_render_data_(r, d, None, P.ExactPadding(), 1, False, finalize=True).close()
                else:
                    it = K["RenderIterator"]._from_render_data_(r, d, None, P.ExactPadding(), 1, False, finalize=True)
                    next(it)
                    for _ in it:
                        pass
            except RuntimeError:
                pass
            eng.reachable()
            eng.claim("a failing finalizer still leaves the data finalized", d.finalized)
            try:
                d.finalize()
            except RuntimeError:
                pass
            eng.claim("finalize() after a failed finalizer does not run the finalizer again", r.finalize_calls.get(id(d), 0) == 1)
            r.finalizer_fails = False
            d.finalized = True  # (whatever happened: nothing is left for the garbage collector to finalize later)
            return
        elif kind == "iter_init_fail":
            # invalid constructor arguments: nothing may leak
            try:
                K["RenderIterator"](r, None, P.ExactPadding(), eng.int("loops"), bool(eng.bool("cache")))
            except ValueError:
                pass
            eng.reachable()
        else:
            loops = eng.int("loops")
            eng.assume(loops != 0)
            if kind == "iter":
                it = K["RenderIterator"](r, None, P.ExactPadding(), loops, bool(shape.get("cache")))
            else:
                data = r._get_render_data_(iteration=True)
                fin = kind == "from_data_owned"
                it = K["RenderIterator"]._from_render_data_(r, data, None, P.ExactPadding(), loops, bool(shape.get("cache")), finalize=fin)
                if not fin:
                    kept.append(data)
            closed_expected = False
            for i in range(shape["steps"]):
                op = shape["first"] if i == 0 else eng.choice(f"op{i}", 5 if shape.get("cache") else 4)
                if it is None:
                    break
                eng.step(("next", "seek", "close", "drop", "set_render_size")[op])
                if op == 0:
                    try:
                        next(it)
                    except StopIteration:
                        closed_expected = True
                    except Exception:  # noqa: BLE001
                        closed_expected = True
                elif op == 1:
                    try:
                        it.seek(eng.int(f"offset{i}"))
                        if closed_expected:
                            eng.claim("control operation on a finished iterator must raise", False)
                    except K["IT"].FinalizedIteratorError:
                        eng.claim("FinalizedIteratorError only after exhaustion, close or an error", closed_expected)
                    except ValueError:
                        eng.claim("range errors only on a live iterator", not closed_expected)
                elif op == 2:
                    it.close()
                    it.close()
                    closed_expected = True
                elif op == 4:
                    try:
                        it.set_render_size(G._Size(eng.int(f"new_w{i}", 1), eng.int(f"new_h{i}", 1)))
                        if closed_expected:
                            eng.claim("control operation on a finished iterator must raise", False)
                    except K["IT"].FinalizedIteratorError:
                        eng.claim("FinalizedIteratorError only after exhaustion, close or an error", closed_expected)
                else:
                    it = None  # drop the last reference
                    gc.collect()
                if it is not None and not closed_expected:
                    eng.claim("render data is not finalized while its iterator is still open (not exhausted, closed or failed)", not any(d.finalized for d in r.data_objects))
                if it is not None and closed_expected:
                    stopped = False
                    try:
                        next(it)
                    except StopIteration:
                        stopped = True
                    except Exception:  # noqa: BLE001
                        pass
                    eng.claim("after exhaustion / close / error next() stops", stopped)
                    Seek = K["Seek"]
                    for nm, f in (("set_frame_duration", lambda: it.set_frame_duration(5)), ("set_render_size", lambda: it.set_render_size(size)), ("set_padding", lambda: it.set_padding(P.ExactPadding())),
                                  ("seek(0, START)", lambda: it.seek(0)), ("seek(0, CURRENT)", lambda: it.seek(0, Seek.CURRENT)), ("seek(0, END)", lambda: it.seek(0, Seek.END)),
                                  ("seek(-1, CURRENT)", lambda: it.seek(-1, Seek.CURRENT))):
                        try:
                            f()
                            ok = False
                        except K["IT"].FinalizedIteratorError:
                            ok = True
                        eng.claim(f"after exhaustion / close / error {nm}() raises FinalizedIteratorError", ok)
            eng.reachable()
            it = None
            gc.collect()
        # ------------------------------------------------------------- verdicts
        gc.collect()
        for idx, d in enumerate(r.data_objects):
            calls = r.finalize_calls.get(id(d), 0)
            if any(d is k for k in kept):
                eng.claim("caller-owned render data is left un-finalized", calls == 0 and not d.finalized)
                d.finalize()
                d.finalize()
                eng.claim("finalize() is idempotent", r.finalize_calls.get(id(d), 0) == 1 and d.finalized)
            else:
                eng.claim("library-owned render data is finalized exactly once", calls == 1 and d.finalized)
        eng.claim("no frame is rendered with finalized render data", not any(bool(e[5]) for e in r.log))
        eng.observe("renders", len(r.log))
        eng.observe("data_objects", len(r.data_objects))


CHECK = C10()
