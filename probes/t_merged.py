import warnings; warnings.simplefilter("ignore")
import sys, time, z3
sys.path.insert(0, ".")
import core
from core import ENG
import term_image
from term_image.image import common, BlockImage, Size
from PIL import Image
img = BlockImage(Image.new("RGB", (3, 3)))
MODE = Size.FIT
def run(eng):
    ow = eng.int("ow", 1, 2**16); oh = eng.int("oh", 1, 2**16)
    cr = eng.real("cr", z3.RealVal(1)/32, 8)
    img._original_size = (ow, oh)
    common.get_terminal_size = lambda: (80, 30)
    common.get_cell_ratio = lambda: cr
    fc = eng.int("fc", 1, 2**16); fl_ = eng.int("fl", 1, 2**16)
    res = img._valid_size(MODE, None, (fc, fl_))
    return dict(fc=fc, fl=fl_, res=res)
results = ENG.explore(run); print("paths", len(results))
for nm in ("within", "touch"):
    disj = []
    for pc, r, exc in results:
        w, h = map(core.lift, r["res"])
        cl = z3.And(w.e <= r["fc"].e, h.e <= r["fl"].e) if nm == "within" else z3.Or(w.e == r["fc"].e, h.e == r["fl"].e)
        disj.append(z3.And(*pc, z3.Not(cl)))
    for tactic in (None, "qfnra-nlsat"):
        s = z3.Solver() if tactic is None else z3.Then("simplify", "solve-eqs", "smt").solver()
        s.set("timeout", 60000); s.add(z3.Or(*disj)); t = time.time(); print(nm, tactic, s.check(), round(time.time() - t, 2))
