import z3, time, re, sys
try:
    import re._parser as sre_parse, re._constants as C
except ImportError:
    import sre_parse, sre_constants as C
S = z3.StringSort()
def lit(c): return z3.Re(chr(c))
def cls(items, negate=False):
    parts = []
    for op, av in items:
        if op is C.LITERAL: parts.append(lit(av))
        elif op is C.RANGE: parts.append(z3.Range(chr(av[0]), chr(av[1])))
        elif op is C.CATEGORY:
            if av is C.CATEGORY_DIGIT: parts.append(z3.Range("0", "9"))
            elif av is C.CATEGORY_WORD: parts += [z3.Range("0","9"), z3.Range("a","z"), z3.Range("A","Z"), z3.Re("_")]
            else: raise NotImplementedError(av)
        elif op is C.NEGATE: negate = True
        else: raise NotImplementedError(op)
    r = parts[0] if len(parts) == 1 else z3.Union(*parts)
    if negate: r = z3.Intersect(z3.AllChar(z3.ReSort(S)), z3.Complement(r))
    return r
def conv(p):
    out = []
    for op, av in p:
        if op is C.LITERAL: out.append(lit(av))
        elif op is C.IN: out.append(cls(av))
        elif op is C.ANY: out.append(z3.Intersect(z3.AllChar(z3.ReSort(S)), z3.Complement(z3.Re("\n"))))
        elif op is C.SUBPATTERN: out.append(conv(av[3]))
        elif op is C.BRANCH: out.append(z3.Union(*[conv(b) for b in av[1]]))
        elif op in (C.MAX_REPEAT, C.MIN_REPEAT):
            lo, hi, sub = av; r = conv(sub)
            if hi is C.MAXREPEAT: out.append(z3.Concat(*([r] * lo + [z3.Star(r)])) if lo else z3.Star(r))
            else: out.append(z3.Loop(r, lo, hi))
        else: raise NotImplementedError(op)
    if not out: return z3.Re("")
    return out[0] if len(out) == 1 else z3.Concat(*out)
def rx(pattern, flags=re.ASCII): return conv(sre_parse.parse(pattern, flags))
from term_image.image import common
impl = z3.Intersect(rx(common._FORMAT_SPEC.pattern), z3.Complement(rx(common._NO_VERTICAL_SPEC.pattern)))
# documented grammar, written independently
digit = z3.Range("0","9"); hexd = z3.Union(digit, z3.Range("a","f"), z3.Range("A","F"))
opt = z3.Option; cat = z3.Concat; plus = z3.Plus
h_align = z3.Union(z3.Re("<"), z3.Re("|"), z3.Re(">")); v_align = z3.Union(z3.Re("^"), z3.Re("-"), z3.Re("_"))
num = plus(digit)
vert = cat(z3.Re("."), z3.Union(cat(v_align, opt(num)), num))
alpha = cat(z3.Re("#"), opt(z3.Union(cat(z3.Re("."), num), z3.Loop(hexd, 6, 6), z3.Re("#"))))
anych = z3.Intersect(z3.AllChar(z3.ReSort(S)), z3.Complement(z3.Re("\n")))
style = cat(z3.Re("+"), plus(anych))
doc = cat(opt(h_align), opt(num), opt(vert), opt(alpha), opt(style))
s = z3.String("s")
sol = z3.Solver(); sol.set("timeout", 120000)
sol.add(z3.InRe(s, impl) != z3.InRe(s, doc))
t = time.time(); r = sol.check(); print("equiv query:", r, round(time.time()-t, 2))
if str(r) == "sat":
    v = sol.model()[s].as_string(); print("witness", repr(v), bool(common._FORMAT_SPEC.fullmatch(v) and not common._NO_VERTICAL_SPEC.fullmatch(v)))
# mutation: documented grammar without the "at least one of v_align/height" rule
doc2 = cat(opt(h_align), opt(num), opt(cat(z3.Re("."), opt(v_align), opt(num))), opt(alpha), opt(style))
sol = z3.Solver(); sol.add(z3.InRe(s, impl) != z3.InRe(s, doc2)); t = time.time(); r = sol.check(); print("mut:", r, round(time.time()-t, 2), repr(sol.model()[s].as_string()) if str(r)=="sat" else "")
