import z3, time, sys, itertools
# Real-relaxation probe of FIT branch (text family): floats = reals with relative error u per op.
mode = sys.argv[1]; claimname = sys.argv[2]; TO = int(sys.argv[3])
u = z3.RealVal(1) / (2**53)
B = 2**16
s = z3.Solver()
cnt = itertools.count()
def R(n): return z3.Real(f"{n}{next(cnt)}")
def fl(e):
    """result of a float op whose exact value is e (e >= 0 here)"""
    r = R("r")
    s.add(r >= e * (1 - u), r <= e * (1 + u))
    return r
def rnd(x):
    k = z3.Int(f"k{next(cnt)}")
    s.add(2 * z3.ToReal(k) - 1 <= 2 * x, 2 * x <= 2 * z3.ToReal(k) + 1)
    return k
cols, lines = z3.Ints("cols lines")
s.add(cols >= 1, cols <= B, lines >= 1, lines <= B)
if mode == "sym":
    ow, oh = z3.Ints("ow oh"); s.add(ow >= 1, ow <= B, oh >= 1, oh <= B); pr = z3.Real("pr"); s.add(pr >= z3.RealVal(1)/16, pr <= 16)
elif mode == "conc":
    ow, oh = z3.IntVal(int(sys.argv[4])), z3.IntVal(int(sys.argv[5])); pr = z3.Real("pr"); s.add(pr >= z3.RealVal(1)/16, pr <= 16)
else:
    ow, oh = z3.IntVal(int(sys.argv[4])), z3.IntVal(int(sys.argv[5])); pr = z3.RealVal(sys.argv[6])
tr = z3.ToReal
fw = cols; fh = 2 * lines
wr = fl(tr(fw) / tr(ow)); hr = fl(tr(fh) / tr(oh))
sm = z3.If(hr < wr, hr, wr)
_w = fl(tr(ow) * sm); _h = fl(tr(oh) * sm)
A = hr > wr
_hA = fl(_h * pr)
hpxA = z3.If(tr(fh) < _hA, tr(fh), _hA)
wpxA = rnd(fl(fl(hpxA / _hA) * _w)); hpxA_i = rnd(hpxA)
_wB = fl(_w / pr)
wpxB = z3.If(tr(fw) < _wB, tr(fw), _wB)
hpxB = rnd(fl(fl(wpxB / _wB) * _h)); wpxB_i = rnd(wpxB)
wpx = z3.If(A, wpxA, wpxB_i); hpx = z3.If(A, hpxA_i, hpxB)
c = z3.If(wpx == 0, 1, wpx)
l0 = z3.Int('ceilv'); s.add(tr(l0) >= tr(hpx)/2, tr(l0) - 1 < tr(hpx)/2)
l = z3.If(l0 == 0, 1, l0)
within = z3.And(c <= cols, l <= lines, c >= 1, l >= 1)
touch = z3.Or(c == cols, l == lines)
# accuracy: exact aspect-preserving non-constraining dimension
# exact FIT: scale = min(fw/ow, fh/(oh*pr)) ; W = ow*scale ; H = oh*pr*scale (pixels) ; cells: W, H/2
sc = z3.If(tr(fw) / tr(ow) < tr(fh) / (tr(oh) * pr), tr(fw) / tr(ow), tr(fh) / (tr(oh) * pr))
Wx = tr(ow) * sc; Lx = tr(oh) * pr * sc / 2
acc = z3.And(z3.Or(tr(c) - Wx < 1, c == 1), Wx - tr(c) < 1, z3.Or(tr(l) - Lx < 1, l == 1), Lx - tr(l) < 1)
claim = {"within": within, "touch": touch, "acc": acc}[claimname]
s.add(z3.Not(claim))
if len(sys.argv) > 4 and sys.argv[4] == 'A': s.add(A)
if len(sys.argv) > 4 and sys.argv[4] == 'notA': s.add(z3.Not(A))
if len(sys.argv) > 5 and sys.argv[5] == 'clamp': s.add(tr(fw) < _wB)
if len(sys.argv) > 5 and sys.argv[5] == 'noclamp': s.add(z3.Not(tr(fw) < _wB))
s.set("timeout", TO * 1000)
t = time.time(); r = s.check(); print(mode, claimname, sys.argv[4:], r, round(time.time() - t, 1))
if str(r) == "sat":
    m = s.model(); print({str(d): m[d] for d in m.decls() if str(d) in ("cols","lines","ow","oh","pr")})
