"""Prototype term strings + lifting helpers."""
import ast, inspect, textwrap, re, copy, z3
import core
from core import ENG, SymInt, SymBool, EngineLimit, lift

class Part: pass
class Lit(Part):
    def __init__(s, t): s.t = t
    def __repr__(s): return f"Lit({s.t!r})"
class Dec(Part):      # decimal rendering of an int
    def __init__(s, v): s.v = v
    def __repr__(s): return f"Dec({s.v})"
class Rep(Part):
    def __init__(s, body, n): s.body, s.n = body, n
    def __repr__(s): return f"Rep({s.body!r},{s.n})"
class Opq(Part):      # opaque payload: no control chars, symbolic length
    def __init__(s, name, length): s.name, s.length = name, length
    def __repr__(s): return f"Opq({s.name},{s.length})"

def _parts(x):
    if isinstance(x, TStr): return list(x.parts)
    if type(x) is str: return [Lit(x)] if x else []
    if isinstance(x, (SymInt,)): return [Dec(x)]
    if type(x) is int: return [Lit(str(x))]
    if isinstance(x, SymBool): raise EngineLimit("bool in string")
    raise EngineLimit(f"cannot stringify {type(x)}")

class TStr:
    def __init__(s, parts): s.parts = [p for p in parts if not (isinstance(p, Lit) and p.t == "")]
    def __add__(s, o): return TStr(s.parts + _parts(o))
    def __radd__(s, o): return TStr(_parts(o) + s.parts)
    def __mul__(s, n):
        if type(n) is bool or type(n) is int: return TStr(s.parts * int(n))
        if isinstance(n, SymBool): return TStr(s.parts) if bool(n) else TStr([])
        return TStr([Rep(TStr(s.parts), n)])
    __rmul__ = __mul__
    def __bool__(s):
        for p in s.parts:
            if isinstance(p, (Lit, Dec)): return True
            if isinstance(p, Opq):
                if bool(lift(p.length) > 0): return True
            if isinstance(p, Rep): raise EngineLimit("bool of Rep")
        return False
    def __mod__(s, args):
        if not isinstance(args, tuple): args = (args,)
        args = list(args); out = []
        for p in s.parts:
            if not isinstance(p, Lit): out.append(p); continue
            pieces = re.split(r"(%[dsc])", p.t)
            for pc in pieces:
                if pc in ("%d", "%s", "%c"):
                    a = args.pop(0)
                    if pc == "%c" and type(a) is str: out.append(Lit(a))
                    else: out.extend(_parts(a))
                elif pc: out.append(Lit(pc))
        if args: raise TypeError("not all arguments converted")
        return TStr(out)
    def decode(s, *a): return s
    def __repr__(s): return "TStr(" + ", ".join(map(repr, s.parts)) + ")"

def T(x): return TStr(_parts(x))
def sx_fstr(*items):
    out = []
    for it in items:
        if isinstance(it, tuple):      # (value, spec)
            v, spec = it
            if spec == "d" and isinstance(v, SymBool): v = v._int()
            if spec == "d" and type(v) is bool: v = int(v)
            out.extend(_parts(v))
        else: out.extend(_parts(it))
    return TStr(out)
def sx_join(sep, items):
    items = list(items); out = []
    for i, it in enumerate(items):
        if i: out.extend(_parts(sep))
        out.extend(_parts(it))
    return TStr(out)
def sx_bool(x):
    if isinstance(x, TStr): return SymBool(z3.BoolVal(True)) if any(isinstance(p,(Lit,Dec)) for p in x.parts) else (lift(sum((p.length for p in x.parts if isinstance(p,Opq)), 0)) > 0)
    return bool(x)

class SymStringIO:
    def __init__(s, init=None):
        s.parts = []; s.src = init; s.pos = 0
    def write(s, x): s.parts.extend(_parts(x)); return 0
    def getvalue(s): return TStr(s.parts)
    def read(s, n):   # over a single Opq source of symbolic length
        (p,) = s.src.parts if s.src.parts else (Opq("empty", 0),)
        rem = lift(p.length) - s.pos
        take = rem if bool(rem <= n) else lift(n)
        r = TStr([Opq(f"{p.name}[{s.pos}:+{take}]", take)]); s.pos = s.pos + take
        return r
    def __enter__(s): return s
    def __exit__(s, *a): return False
class SymBytesIO(SymStringIO):
    def __init__(s, init): s.parts = []; s.src = TStr([init]) if isinstance(init, Opq) else init; s.pos = 0

class Lifter(ast.NodeTransformer):
    def visit_JoinedStr(self, node):
        self.generic_visit(node)
        elts = []
        for v in node.values:
            if isinstance(v, ast.Constant): elts.append(v)
            else:
                spec = None
                if v.format_spec is not None:
                    spec = v.format_spec.args[0] if isinstance(v.format_spec, ast.Call) else None
                if spec is not None: elts.append(ast.Tuple([v.value, spec], ast.Load()))
                else: elts.append(v.value)
        return ast.Call(ast.Name("__sx_fstr", ast.Load()), elts, [])
    def visit_Call(self, node):
        self.generic_visit(node)
        if isinstance(node.func, ast.Attribute) and node.func.attr == "join" and len(node.args) == 1:
            return ast.Call(ast.Name("__sx_join", ast.Load()), [node.func.value, node.args[0]], [])
        if isinstance(node.func, ast.Name) and node.func.id == "bool" and len(node.args) == 1:
            return ast.Call(ast.Name("__sx_bool", ast.Load()), node.args, [])
        return node

def lift_function(owner, name, module):
    fn = owner.__dict__[name]
    raw = fn.__func__ if isinstance(fn, (staticmethod, classmethod)) else fn
    src = textwrap.dedent(inspect.getsource(raw))
    import os
    if os.environ.get("MUT"): a, b = os.environ["MUT"].split("=>"); src = src.replace(a, b)
    tree = Lifter().visit(ast.parse(src)); ast.fix_missing_locations(tree)
    g = module.__dict__
    g.update(__sx_fstr=sx_fstr, __sx_join=sx_join, __sx_bool=sx_bool)
    ns = {}
    exec(compile(tree, f"<lifted {owner.__name__}.{name}>", "exec"), g, ns)
    new = ns[name]
    setattr(owner, name, type(fn)(new) if isinstance(fn, (staticmethod, classmethod)) else new)
