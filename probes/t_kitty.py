import warnings; warnings.simplefilter("ignore")
import sys, time, types, z3
sys.path.insert(0, ".")
import core, tstr
from core import ENG, SymInt, SymBool, lift
from tstr import TStr, Lit, Dec, Rep, Opq, T
import term_image.image.kitty as K, term_image.image.common as CM
from term_image.image import KittyImage
from PIL import Image
K.KittyImage._supported = True
# --- patch templates & environment in the kitty module namespace
for nm in ("CURSOR_FORWARD", "ERASE_CHARS", "KITTY_DELETE_CURSOR", "KITTY_TRANSMISSION"):
    setattr(K, nm, T(getattr(K, nm)))
K.io = types.SimpleNamespace(StringIO=tstr.SymStringIO, BytesIO=tstr.SymBytesIO)
K.compress = lambda data, level: Opq("zz", ENG.int(f"zlen{next(ENG.fresh)}", 1, 6500))
K.standard_b64encode = lambda p: Opq("b64", 4 * ((lift(p.length if isinstance(p, Opq) else p.parts[0].length) + 2) // 3))
Opq.decode = lambda s, *a: TStr([s])
for owner, name in ((K.Transmission, "get_chunks"), (K.Transmission, "get_control_data"), (K.KittyImage, "_render_image")):
    tstr.lift_function(owner, name, K)

class FakeImg:
    def __init__(s, mode, n): s.mode = mode; s.n = n
    def tobytes(s): return Opq("raw", s.n)
    def close(s): pass

img = KittyImage(Image.new("RGB", (3, 3)))
RH = int(sys.argv[1]) if len(sys.argv) > 1 else 2
METHOD = sys.argv[2] if len(sys.argv) > 2 else "lines"

def run(eng):
    rw = eng.int("rw", 1); cw = eng.int("cw", 1); ch = eng.int("ch", 1)
    z = eng.int("z", -(2**31) + 1, 2**31 - 1); lvl = eng.int("lvl", 0, 9)
    mix = SymBool(z3.Bool("mix")); blend = SymBool(z3.Bool("blend")); rgba = SymBool(z3.Bool("rgba"))
    img._size = (rw, RH)
    CM.get_cell_size = lambda: (cw, ch)
    def grd(self, im, alpha, *, size=None, pixel_data=True, round_alpha=False, frame=False):
        w, h = size; bpp = 4 if rgba else 3
        eng.assume(w * h * bpp <= 6500)
        return (FakeImg("RGBA" if bpp == 4 else "RGB", w * h * bpp), None, None)
    KittyImage._get_render_data = grd
    out = img._render_image(None, None, method=METHOD, z_index=z, mix=mix, compress=lvl, blend=blend)
    return dict(rw=rw, out=out)

t = time.time(); res = ENG.explore(run, max_paths=3000); print("paths", len(res), "queries", ENG.queries, round(time.time() - t, 2))
for pc, r, exc in res[:3]:
    print(exc if exc else r["out"])
import collections
print(collections.Counter(type(e).__name__ if e else "ok" for _, _, e in res))
import term
W, H, x0, y0, px, py = z3.Ints("W H x0 y0 px py")
tq = 0; bad = 0; t = time.time()
for pc, r, exc in res:
    rw = r["rw"].e
    tm = term.Term(W, H, x0, y0, px, py); tm.feed(r["out"])
    s = z3.Solver(); s.add(*pc); s.add(W >= 1, H >= 1, x0 >= 0, y0 >= 0, x0 + rw <= W, y0 + RH <= H, px >= 0, px < W, py >= 0, py < H)
    in_rect = z3.And(px >= x0, px < x0 + rw, py >= y0, py < y0 + RH)
    mix = z3.Bool("mix")
    claims = [("events:" + n, z3.Not(c)) for n, c in tm.errors]
    claims += [("only-rect", z3.Implies(tm.written, in_rect)), ("covers", z3.Implies(in_rect, tm.written)),
               ("cursor", z3.And(tm.col == z3.If(x0 + rw > W - 1, W - 1, x0 + rw), tm.row == y0 + RH - 1)), ("newlines", z3.BoolVal(tm.newlines == RH - 1))]
    for nm, c in claims:
        s.push(); s.add(z3.Not(c)); rr = s.check(); s.pop(); tq += 1
        if str(rr) != "unsat":
            bad += 1
            if bad <= 6: print("  ", nm, rr, s.model() if str(rr) == "sat" and False else "")
print("claim queries", tq, "not-unsat", bad, round(time.time() - t, 2))
