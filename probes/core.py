"""Prototype proxy-based symbolic executor (DFS by re-execution, z3 feasibility)."""
import z3, itertools, math

class EngineLimit(BaseException): pass
class Abort(BaseException): pass

class Engine:
    def __init__(self):
        self.solver = z3.Solver(); self.solver.set('timeout', 1500)
        self.reset_stats()
    def reset_stats(self):
        self.paths = 0; self.queries = 0
    def explore(self, fn, max_paths=100000):
        """fn(engine) runs the code; yields (pathcond list, result) per path via callback collected list."""
        results = []
        stack = [[]]        # list of decision prefixes to explore
        while stack:
            prefix = stack.pop()
            self.decisions = list(prefix); self.pos = 0; self.pc = []; self.pending = []
            self.solver.push()
            self.fresh = itertools.count()
            try:
                try:
                    r = fn(self)
                    results.append((list(self.pc), r, None))
                except Abort:
                    pass
                except EngineLimit:
                    raise
                except BaseException as e:
                    results.append((list(self.pc), None, e))
            finally:
                self.solver.pop()
            for alt in self.pending:
                stack.append(alt)
            self.paths += 1
            if self.paths > max_paths: raise EngineLimit("too many paths")
        return results
    def assume(self, cond):
        c = cond.e if isinstance(cond, SymBool) else z3.BoolVal(bool(cond))
        self.pc.append(c); self.solver.add(c)
        self.queries += 1
        if self.solver.check() == z3.unsat: raise Abort()
    def branch(self, cond):
        """decide truth of z3 Bool cond on this path"""
        cond = z3.simplify(cond)
        if z3.is_true(cond): return True
        if z3.is_false(cond): return False
        if self.pos < len(self.decisions):
            d = self.decisions[self.pos]; self.pos += 1
            c = cond if d else z3.Not(cond)
            self.pc.append(c); self.solver.add(c)
            return d
        # new decision point: check feasibility of both
        self.queries += 2
        self.solver.push(); self.solver.add(cond); t = self.solver.check(); self.solver.pop()
        self.solver.push(); self.solver.add(z3.Not(cond)); f = self.solver.check(); self.solver.pop()
        ts, fs = t != z3.unsat, f != z3.unsat   # unknown => treat as feasible (over-approximate exploration)
        if ts and fs:
            self.pending.append(self.decisions[:self.pos] + [False])
            d = True
        elif ts: d = True
        elif fs: d = False
        else: raise Abort()
        self.decisions.append(d); self.pos += 1
        c = cond if d else z3.Not(cond)
        self.pc.append(c); self.solver.add(c)
        return d
    def int(self, name, lo=None, hi=None):
        v = SymInt(z3.Int(name))
        if lo is not None: self.pc.append(v.e >= lo); self.solver.add(v.e >= lo)
        if hi is not None: self.pc.append(v.e <= hi); self.solver.add(v.e <= hi)
        return v
    def real(self, name, lo=None, hi=None):
        v = SymFloat(z3.Real(name))
        if lo is not None: self.pc.append(v.e >= lo); self.solver.add(v.e >= lo)
        if hi is not None: self.pc.append(v.e <= hi); self.solver.add(v.e <= hi)
        return v

ENG = Engine()
U = z3.RealVal(1) / (2 ** 53)

def lift(x):
    if isinstance(x, (SymInt, SymFloat, SymBool)): return x
    if type(x) is bool: return SymBool(z3.BoolVal(x))
    if type(x) is int: return SymInt(z3.IntVal(x))
    if type(x) is float: return SymFloat(z3.RealVal(repr(x)))
    raise EngineLimit(f"cannot lift {type(x)}")

class SymBool:
    def __init__(self, e): self.e = e
    def __bool__(self): return ENG.branch(self.e)
    def __and__(self, o): return SymBool(z3.And(self.e, lift(o).e if not isinstance(o, SymBool) else o.e))
    def __eq__(self, o): return SymBool(self.e == (o.e if isinstance(o, SymBool) else z3.BoolVal(bool(o))))
    def __hash__(self): raise EngineLimit("hash of SymBool")
    # bool arithmetic (True + 1)
    def _int(self): return SymInt(z3.If(self.e, 1, 0))
    def __add__(self, o): return self._int() + o
    __radd__ = __add__
    def __mul__(self, o): return self._int() * o
    __rmul__ = __mul__

def _real(x):
    x = lift(x)
    if isinstance(x, SymInt): return z3.ToReal(x.e)
    if isinstance(x, SymBool): return z3.ToReal(x._int().e)
    return x.e

def _is_pow2_const(x):
    if type(x) in (int, float) and x > 0:
        m, e = math.frexp(float(x)); return m == 0.5
    return False

def fl(exact, exact_ok=False):
    """float op result: relative error <= 2^-53 (standard model)."""
    if exact_ok or z3.is_rational_value(z3.simplify(exact)):
        return SymFloat(exact)
    r = z3.Real(f"fl{next(ENG.fresh)}")
    c = z3.And(r >= exact * (1 - U), r <= exact * (1 + U))  # PROBE: plain, assumes exact >= 0
    ENG.pc.append(c); ENG.solver.add(c)
    return SymFloat(r)

class SymNum:
    __class__ = property(lambda s: s._pyclass)
    def _cmp(self, o, op):
        a, b = lift(self), lift(o)
        if isinstance(a, SymInt) and isinstance(b, SymInt): return SymBool(op(a.e, b.e))
        return SymBool(op(_real(a), _real(b)))
    def __lt__(self, o): return self._cmp(o, lambda a, b: a < b)
    def __le__(self, o): return self._cmp(o, lambda a, b: a <= b)
    def __gt__(self, o): return self._cmp(o, lambda a, b: a > b)
    def __ge__(self, o): return self._cmp(o, lambda a, b: a >= b)
    def __eq__(self, o):
        if not isinstance(o, (int, float, SymNum, SymBool)): return False
        return self._cmp(o, lambda a, b: a == b)
    def __ne__(self, o):
        if not isinstance(o, (int, float, SymNum, SymBool)): return True
        return self._cmp(o, lambda a, b: a != b)
    def __hash__(self): raise EngineLimit("hash of symbolic number")
    def __bool__(self): return bool(self != 0)
    def __index__(self): raise EngineLimit("concrete int required (__index__)")
    def __truediv__(self, o):
        ex = _real(self) / _real(o)
        r = fl(ex, exact_ok=_is_pow2_const(o) and isinstance(self, SymInt) or _is_pow2_const(o))
        if type(self) is SymInt and type(o) is int and o > 0 and _is_pow2_const(o):
            r.ratio = (self, o)     # exact integer quotient: keep ceil/floor in integer arithmetic
        return r
    def __rtruediv__(self, o):
        return fl(_real(o) / _real(self))

class SymInt(SymNum):
    _pyclass = int
    def __init__(self, e): self.e = e
    def _bin(self, o, f, ff):
        if isinstance(o, (SymFloat, float)): return ff(self, o)
        o = lift(o)
        if isinstance(o, SymBool): o = o._int()
        return SymInt(f(self.e, o.e))
    def __add__(self, o): return self._bin(o, lambda a, b: a + b, lambda a, b: fl(_real(a) + _real(b)))
    __radd__ = __add__
    def __sub__(self, o): return self._bin(o, lambda a, b: a - b, lambda a, b: fl(_real(a) - _real(b)))
    def __rsub__(self, o): return lift(o) - self
    def __mul__(self, o): return self._bin(o, lambda a, b: a * b, lambda a, b: fl(_real(a) * _real(b), exact_ok=_is_pow2_const(b)))
    __rmul__ = __mul__
    def __floordiv__(self, o): return self._bin(o, lambda a, b: a / b, None)  # z3 Int div == floor for positive divisor
    def __mod__(self, o): return self._bin(o, lambda a, b: a % b, None)
    def __neg__(self): return SymInt(-self.e)
    def __round__(self, n=None): return self
    def __ceil__(self): return self
    def __repr__(self): return f"SymInt({self.e})"

class SymFloat(SymNum):
    _pyclass = float
    def __init__(self, e): self.e = e
    def __add__(self, o): return fl(self.e + _real(o))
    __radd__ = __add__
    def __sub__(self, o): return fl(self.e - _real(o))
    def __rsub__(self, o): return fl(_real(o) - self.e)
    def __mul__(self, o): return fl(self.e * _real(o), exact_ok=_is_pow2_const(o))
    __rmul__ = __mul__
    def __neg__(self): return SymFloat(-self.e)
    def __round__(self, n=None):
        if n is not None: raise EngineLimit("round ndigits")
        k = z3.Int(f"rnd{next(ENG.fresh)}")
        c = z3.And(2 * z3.ToReal(k) - 1 <= 2 * self.e, 2 * self.e <= 2 * z3.ToReal(k) + 1)
        ENG.pc.append(c); ENG.solver.add(c)
        return SymInt(k)
    def __ceil__(self):
        if getattr(self, "ratio", None):
            n, d = self.ratio; return SymInt((n.e + (d - 1)) / d)
        k = z3.Int(f"ceil{next(ENG.fresh)}")
        c = z3.And(z3.ToReal(k) >= self.e, z3.ToReal(k) - 1 < self.e)
        ENG.pc.append(c); ENG.solver.add(c)
        return SymInt(k)
    def __repr__(self): return f"SymFloat({self.e})"
