"""Prototype symbolic terminal interpreter with a probe cell."""
import z3
from core import SymInt, lift, EngineLimit
from tstr import TStr, Lit, Dec, Rep, Opq

def atoms(ts):
    for p in ts.parts:
        if isinstance(p, Lit):
            for c in p.t: yield c
        elif isinstance(p, Rep):
            if type(p.n) is int:
                for _ in range(p.n): yield from atoms(p.body)
            else: yield ("rep", p.body, p.n)
        else: yield p

class Term:
    def __init__(s, W, H, x0, y0, px, py):
        s.W, s.H = W, H; s.col, s.row = x0, y0; s.x0 = x0
        s.px, s.py = px, py
        s.written = z3.BoolVal(False); s.errors = []   # list of z3 conditions that must be unsat (bad events)
        s.sgr_default = z3.BoolVal(True); s.newlines = 0
    def _cover(s, c0, n, row):      # cells [c0, c0+n) on row
        s.written = z3.Or(s.written, z3.And(s.py == row, s.px >= c0, s.px < c0 + n))
    def glyphs(s, n):
        s.errors.append(("wrap", s.col + n > s.W)); s._cover(s.col, n, s.row); s.col = s.col + n
    def feed(s, ts):
        it = iter(atoms(ts)); 
        for a in it:
            if a == "\n":
                s.newlines += 1; s.errors.append(("scroll", s.row + 1 > s.H - 1)); s.row = s.row + 1; s.col = s.x0   # CR LF + library positioning CUF(x0)
            elif a == "\x1b":
                k = next(it)
                if k == "[":
                    params = []; 
                    for b in it:
                        if isinstance(b, Dec): params.append(b.v.e)
                        elif isinstance(b, str) and b.isdigit(): params.append(z3.IntVal(int(b)))   # single digit literals only in this prototype
                        elif isinstance(b, str) and b in "?;": pass
                        elif isinstance(b, str) and "@" <= b <= "~": fin = b; break
                        else: s.errors.append(("malformed CSI", z3.BoolVal(True))); return
                    for p in params: s.errors.append(("negative CSI param", p < 0))
                    n = params[0] if params else z3.IntVal(1)
                    if fin == "C": s.col = z3.If(s.col + n > s.W - 1, s.W - 1, s.col + n)
                    elif fin == "X": s.errors.append(("ECH beyond margin", s.col + n > s.W)); s._cover(s.col, n, s.row)
                    elif fin == "A": s.row = z3.If(s.row - n < 0, 0, s.row - n)
                    elif fin == "m": s.sgr_default = z3.BoolVal(len(params) == 0)
                    else: raise EngineLimit(f"CSI {fin}")
                elif k == "_":   # APC ... ST
                    keys = {}; cur = ""; val = None; payload = False; closed = False
                    for b in it:
                        if b == "\x1b":
                            if next(it) == "\\": closed = True; break
                            s.errors.append(("ESC in APC", z3.BoolVal(True))); return
                        if payload: continue
                        if b == ";": 
                            if cur: keys[cur] = val
                            payload = True
                        elif b == ",": keys[cur] = val; cur = ""; val = None
                        elif b == "=": val = []
                        elif val is None: cur += b if isinstance(b, str) else "?"
                        else: val.append(b)
                    if not closed: s.errors.append(("unterminated APC", z3.BoolVal(True))); return
                    if "Ga" in keys or "a" in keys:
                        a = keys.get("Ga", keys.get("a"))
                        if a == ["T"]:
                            c = keys["c"][0].v.e; r = keys["r"]; r = r[0].v.e if isinstance(r[0], Dec) else z3.IntVal(int("".join(r)))
                            s.errors.append(("C!=1", z3.BoolVal(keys.get("C") != ["1"])))
                            s.errors.append(("placement beyond margin", s.col + c > s.W))
                            s.written = z3.Or(s.written, z3.And(s.px >= s.col, s.px < s.col + c, s.py >= s.row, s.py < s.row + r))
                else: raise EngineLimit(f"ESC {k!r}")
            elif isinstance(a, str): s.glyphs(1)
            else: raise EngineLimit(f"atom {a!r}")
