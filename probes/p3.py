import warnings
warnings.simplefilter("ignore")
from typing import List, Tuple
from term_image.geometry import Size
from term_image.render import RenderIterator, FinalizedIteratorError
from term_image.renderable import Renderable, Frame, Seek, FrameCount
from term_image.padding import ExactPadding
import stubs; stubs.install()

class R(Renderable):
    def __init__(self, n):
        super().__init__(n, 1)
    def _get_render_size_(self):
        return Size(1, 1)
    def _render_(self, render_data, render_args):
        d = render_data[Renderable]
        return Frame(d.frame_offset, d.duration, d.size, " ")

WH = (Seek.START, Seek.CURRENT, Seek.END)

class M:
    def __init__(s, n, loops):
        s.n = n; s.nxt = 0; s.loop = loops; s.closed = False
    def next(s):
        if s.closed: return "stop"
        if s.nxt >= s.n:
            s.nxt = 0
            if s.loop > 0: s.loop -= 1
            if s.loop == 0:
                s.closed = True; return "stop"
        r = s.nxt; s.nxt += 1; return r
    def seek(s, off, w):
        if s.closed: return "fin"
        f = off if w is Seek.START else (s.nxt + off if w is Seek.CURRENT else s.n + off - 1)
        if not 0 <= f < s.n: return "verr"
        s.nxt = f; return "ok"

def do(it, kind, off, wh):
    if kind == 0:
        try:
            return next(it).number
        except StopIteration:
            return "stop"
    try:
        it.seek(off, WH[wh]); return "ok"
    except FinalizedIteratorError:
        return "fin"
    except ValueError:
        return "verr"

def mdo(m, kind, off, wh):
    return m.next() if kind == 0 else m.seek(off, WH[wh])

def run(n: int, loops: int, a: int, k1: int, o1: int, w1: int, k2: int, o2: int, w2: int, k3: int, o3: int, w3: int) -> bool:
    """
    pre: 2 <= n
    pre: loops != 0
    pre: 0 <= a < n
    pre: 0 <= k1 <= 1 and 0 <= w1 <= 2
    pre: 0 <= k2 <= 1 and 0 <= w2 <= 2
    pre: 0 <= k3 <= 1 and 0 <= w3 <= 2
    post: _
    """
    it = RenderIterator(R(n), loops=loops, cache=False)
    m = M(n, loops)
    ok = do(it, 1, a, 0) == mdo(m, 1, a, 0)
    ok = ok and do(it, 0, 0, 0) == mdo(m, 0, 0, 0)
    ok = ok and do(it, k1, o1, w1) == mdo(m, k1, o1, w1)
    ok = ok and do(it, k2, o2, w2) == mdo(m, k2, o2, w2)
    ok = ok and do(it, k3, o3, w3) == mdo(m, k3, o3, w3)
    ok = ok and it.loop == m.loop
    return ok
