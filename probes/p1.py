import warnings
warnings.simplefilter("ignore")
from typing import Tuple
from term_image.widget._urwid import UrwidImageCanvas

def calc_trim(size: int, image_size: int, trim1: int, pad1: int, trim2: int) -> Tuple[int,int,int,int]:
    """
    pre: 1 <= image_size <= size
    pre: 0 <= pad1 <= size - image_size
    pre: trim1 >= 0 and trim2 >= 0 and trim1 + trim2 < size
    post: _[0] >= 0 and _[3] >= 0 and 0 <= _[1] <= image_size and 0 <= _[2] <= image_size
    post: _[0] + max(image_size - _[1] - _[2], 0) + _[3] == size - trim1 - trim2
    """
    pad2 = size - image_size - pad1
    return UrwidImageCanvas._ti_calc_trim(size, image_size, trim1, pad1, trim2, pad2)
