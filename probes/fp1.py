import z3, time, sys
# Probe: bit-precise FP64 encoding of FIT branch of _valid_size (text family), claim: result within frame.
F = z3.Float64(); RNE = z3.RNE()
BW = int(sys.argv[1]) if len(sys.argv) > 1 else 8
def ivar(n): return z3.BitVec(n, 32)
ow, oh, cols, lines = map(ivar, "ow oh cols lines".split())
pr = z3.FP("pr", F)
s = z3.Solver()
for v in (ow, oh, cols, lines):
    s.add(z3.UGE(v, 1), z3.ULT(v, 1 << BW))
s.add(z3.Not(z3.fpIsNaN(pr)), z3.Not(z3.fpIsInf(pr)), z3.fpGT(pr, z3.FPVal(0.0, F)))
s.add(z3.fpGEQ(pr, z3.FPVal(1/16, F)), z3.fpLEQ(pr, z3.FPVal(16.0, F)))
def tofp(bv): return z3.fpSignedToFP(RNE, bv, F)
fw = cols; fh = lines * 2
wr = z3.fpDiv(RNE, tofp(fw), tofp(ow)); hr = z3.fpDiv(RNE, tofp(fh), tofp(oh))
sm = z3.If(z3.fpLT(hr, wr), hr, wr)   # min(width_ratio, height_ratio): returns first if not (b<a)
_w = z3.fpMul(RNE, tofp(ow), sm); _h = z3.fpMul(RNE, tofp(oh), sm)
def rnd(x): return z3.fpToSBV(RNE, z3.fpRoundToIntegral(RNE, x), z3.BitVecSort(32))
# branch A: height_ratio > width_ratio
_hA = z3.fpMul(RNE, _h, pr)
hA_is_fh = z3.fpLT(tofp(fh), _hA)           # min(_hA, fh): fh if fh < _hA
hpxA = z3.If(hA_is_fh, tofp(fh), _hA)
wpxA = rnd(z3.fpMul(RNE, z3.fpDiv(RNE, hpxA, _hA), _w)); hpxA_i = rnd(hpxA)
# branch B
_wB = z3.fpDiv(RNE, _w, pr)
wB_is_fw = z3.fpLT(tofp(fw), _wB)
wpxB = z3.If(wB_is_fw, tofp(fw), _wB)
hpxB = rnd(z3.fpMul(RNE, z3.fpDiv(RNE, wpxB, _wB), _h)); wpxB_i = rnd(wpxB)
A = z3.fpGT(hr, wr)
wpx = z3.If(A, wpxA, wpxB_i); hpx = z3.If(A, hpxA_i, hpxB)
c = z3.If(wpx == 0, z3.BitVecVal(1, 32), wpx)
l0 = z3.LShR(hpx + 1, 1)   # ceil(h/2) for h>=0
l = z3.If(l0 == 0, z3.BitVecVal(1, 32), l0)
claim = z3.And(z3.ULE(c, cols), z3.ULE(l, lines), z3.UGE(c, 1), z3.UGE(l, 1), z3.Or(c == cols, l == lines))
which = sys.argv[2] if len(sys.argv) > 2 else "fit"
if which == "within": claim = z3.And(z3.ULE(c, cols), z3.ULE(l, lines))
s.add(z3.Not(claim))
s.set("timeout", int(sys.argv[3]) * 1000 if len(sys.argv) > 3 else 120000)
t = time.time(); r = s.check(); print(BW, which, r, round(time.time() - t, 1))
if str(r) == "sat":
    m = s.model(); print({str(d): m[d] for d in m.decls()})
