import warnings
warnings.simplefilter("ignore")
import sys, term_image.utils as U
def _mk(exc):
    def f(*a, **k):
        return exc()
    return f
NAMES = {"arg_type_error": TypeError, "arg_type_error_msg": TypeError, "arg_value_error": ValueError,
         "arg_value_error_msg": ValueError, "arg_value_error_range": ValueError}
def install():
    for modname, mod in list(sys.modules.items()):
        if modname.startswith("term_image") and mod is not None:
            for n, e in NAMES.items():
                if hasattr(mod, n):
                    setattr(mod, n, _mk(e))
