import warnings; warnings.simplefilter("ignore")
import os, sys, time, z3
sys.path.insert(0, ".")
import core
from core import ENG, SymInt, SymFloat
import term_image, term_image.utils as U
from term_image.image import common, BlockImage, Size
from PIL import Image

img = BlockImage(Image.new("RGB", (3, 3)))

def run(eng):
    ow = eng.int("ow", 1, 2**16); oh = eng.int("oh", 1, 2**16)
    cols = eng.int("cols", 1, 2**16); lines_ = eng.int("lines", 1, 2**16)
    pr2 = eng.real("cr", z3.RealVal(1)/32, 8)
    img._original_size = (ow, oh)
    common.get_terminal_size = lambda: (cols, lines_)   # frame_size absolute avoids terminal
    term_image._cell_ratio = pr2
    common.get_cell_ratio = lambda: pr2
    fc = eng.int("fc", 1, 2**16); fl_ = eng.int("fl", 1, 2**16)
    res = img._valid_size(MODE, None, (fc, fl_))
    return dict(ow=ow, oh=oh, fc=fc, fl=fl_, cr=pr2, res=res)

for MODE in (Size.FIT, Size.AUTO, Size.FIT_TO_WIDTH, Size.ORIGINAL):
    ENG.reset_stats(); t = time.time()
    results = ENG.explore(run)
    print(MODE, "paths", len(results), "queries", ENG.queries, round(time.time()-t, 2))
    for pc, r, exc in results:
        if exc: print("  EXC", repr(exc)); continue
        w, h = r["res"]; w = core.lift(w); h = core.lift(h)
        s = z3.Solver(); s.set("timeout", 15000); s.add(*pc)
        claim = z3.And(w.e >= 1, h.e >= 1)
        if MODE in (Size.FIT, Size.AUTO):
            claim = z3.And(claim, w.e <= r["fc"].e, h.e <= r["fl"].e)
        if MODE is Size.FIT:
            claim = z3.And(claim, z3.Or(w.e == r["fc"].e, h.e == r["fl"].e))
        if MODE is Size.FIT_TO_WIDTH:
            claim = z3.And(claim, w.e == r["fc"].e)
        for nm, cl in (("pos", z3.And(w.e >= 1, h.e >= 1)), ("within", z3.And(w.e <= r["fc"].e, h.e <= r["fl"].e)), ("touch", z3.Or(w.e == r["fc"].e, h.e == r["fl"].e))):
            s.push(); s.add(z3.Not(cl)); t1 = time.time(); rr = s.check(); s.pop()
            print("  path", len(pc), nm, rr, round(time.time()-t1, 2))
            if str(rr) == "unknown" and nm == "within":
                print("   PC:", [str(z3.simplify(c))[:150] for c in pc if "fl" not in str(c)[:3] or True][-14:])
        if str(rr) == "sat":
            m = s.model(); print("   cex", {k: m.eval(v.e) for k, v in r.items() if k != "res"}, m.eval(w.e), m.eval(h.e))
